"""Forward-mode automatic differentiation of a traced DAG in double precision (support of the failing-input search
of C42/C43: the property's own observable is "analytical jacobian = derivative of the residual")."""
import math


def eval_ad(u, env, wrt):
    """values and gradients (w.r.t. the inputs named in `wrt`) of every node of unit u at the float point env"""
    n = len(wrt)
    idx = {name: k for k, name in enumerate(wrt)}
    val, grad = {}, {}
    zero = [0.0] * n
    for j in u.order:
        op, p = u.nodes[j]
        if op == "in":
            val[j] = float(env[p])
            g = list(zero)
            if p in idx:
                g[idx[p]] = 1.0
            grad[j] = g
        elif op == "const":
            num, den, r = p
            val[j] = num / den * (math.sqrt(r) if r != 1 else 1.0)
            grad[j] = zero
        elif op == "lit":
            val[j] = float(p)
            grad[j] = zero
        elif op in ("add", "sub"):
            a, b = p
            s = 1.0 if op == "add" else -1.0
            val[j] = val[a] + s * val[b]
            grad[j] = [x + s * y for x, y in zip(grad[a], grad[b])]
        elif op == "mul":
            a, b = p
            val[j] = val[a] * val[b]
            grad[j] = [x * val[b] + val[a] * y for x, y in zip(grad[a], grad[b])]
        elif op == "div":
            a, b = p
            val[j] = val[a] / val[b]
            grad[j] = [(x - val[j] * y) / val[b] for x, y in zip(grad[a], grad[b])]
        elif op == "neg":
            val[j] = -val[p[0]]
            grad[j] = [-x for x in grad[p[0]]]
        elif op == "sqrt":
            val[j] = math.sqrt(val[p[0]])
            grad[j] = [x / (2 * val[j]) for x in grad[p[0]]]
        elif op == "exp":
            val[j] = math.exp(val[p[0]])
            grad[j] = [x * val[j] for x in grad[p[0]]]
        elif op == "log":
            val[j] = math.log(val[p[0]])
            grad[j] = [x / val[p[0]] for x in grad[p[0]]]
        elif op == "pow":
            a, b = p
            val[j] = math.pow(val[a], val[b])
            lg = math.log(val[a]) if val[a] > 0 else 0.0
            grad[j] = [val[b] * val[j] / val[a] * x + val[j] * lg * y for x, y in zip(grad[a], grad[b])]
        elif op in ("max", "min"):
            a, b = p
            first = (val[a] >= val[b]) if op == "max" else (val[a] <= val[b])
            val[j] = val[a] if first else val[b]
            grad[j] = grad[a] if first else grad[b]
        elif op == "abs":
            s = 1.0 if val[p[0]] >= 0 else -1.0
            val[j] = abs(val[p[0]])
            grad[j] = [s * x for x in grad[p[0]]]
        else:
            raise ValueError("c43ad: unsupported operation " + op)
    return val, grad


def shadow_env(dump_text, unit):
    import re
    m = re.search(r"unit %s\n(.*?)end %s\n" % (re.escape(unit), re.escape(unit)), dump_text, re.S)
    env = {}
    for line in m.group(1).splitlines():
        f = line.split()
        if f[0] == "n" and f[2] == "in":
            env[f[3]] = float(line.split(";")[1])
    return env


def jacobian_mismatches(u, env, ys, ny, rtol=1e-8):
    """entries (r, k) where the traced analytical jacobian differs from the derivative of the traced residual"""
    val, grad = eval_ad(u, env, ys)
    outs = dict(u.outs)
    bad, n = [], 0
    scale = {}
    for r in range(ny):
        g = grad[outs["F%d" % r]]
        scale[r] = max([abs(x) for x in g] + [1e-300])
    for r in range(ny):
        g = grad[outs["F%d" % r]]
        for k in range(ny):
            a = val[outs["J%d_%d" % (r, k)]]
            n += 1
            if abs(a - g[k]) > rtol * scale[r]:
                bad.append({"row": r, "column": k, "analytical_jacobian": a, "derivative_of_residual": g[k]})
    return bad, n
