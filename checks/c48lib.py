"""Shared helpers of the MTest checks C48 / C50 / C49: building the harnesses from the mtest sources
of the current tree, IEEE-754 bit pattern I/O."""
import os
import struct

import vlib

#: mtest sources compiled from the working tree into the harnesses (the anchored files and the
#: non-exported classes they need); everything else comes from the prebuilt shared libraries
MTEST_SOURCES = ["GenericSolver", "Evolution", "FunctionEvolution", "MTest", "ImposedGradient",
                 "ImposedThermodynamicForce", "Constraint", "SingleStructureScheme", "StudyCurrentState",
                 "StructureCurrentState", "CurrentState", "SolverOptions", "Solver",
                 "UserDefinedPostProcessing"]
ACCEL_SOURCES = ["AccelerationAlgorithm", "CastemAccelerationAlgorithm", "SecantAccelerationAlgorithm",
                 "IronsTuckAccelerationAlgorithm", "SteffensenAccelerationAlgorithm",
                 "UAndersonAccelerationAlgorithm", "FAndersonAccelerationAlgorithm",
                 "AccelerationAlgorithmFactory", "AlternateSecantAccelerationAlgorithm",
                 "CrossedSecantAccelerationAlgorithm", "Alternate2DeltaAccelerationAlgorithm",
                 "AlternateDelta2AccelerationAlgorithm", "Crossed2DeltaAccelerationAlgorithm",
                 "Crossed2DeltabisAccelerationAlgorithm", "CrossedDelta2AccelerationAlgorithm"]
DEFINES = ("TFEL_VERIF_HOOKS", "TFEL_ARCH64", "LINUX64", "UNIX64", "THREAD", "CASTEM_UNIX_TYPE=UNIX64",
           "CYRANO_ARCH=64", "HAVE_FENV")
LIBS = ["TFELMTest", "MFrontLogStream", "TFELMaterial", "TFELMathParser", "TFELMath", "TFELSystem",
        "TFELUtilities", "TFELTests", "TFELConfig", "TFELException", "TFELUnicodeSupport", "TFELNUMODIS",
        "TFELGlossary"]


def includes():
    return [os.path.join(vlib.REPO, "mtest", "include"), os.path.join(vlib.REPO, "mfront", "include"),
            os.path.join(vlib.BUILD, "mtest", "include"), os.path.join(vlib.BUILD, "mfront", "include")]


def compiler():
    """g++ through ccache when it is installed (the cache key is the preprocessed translation unit, the flags
    and the compiler: a changed source or header is always recompiled); plain g++ otherwise"""
    import shutil
    wrapper = os.path.join(vlib.VERIF, "harness", "C48", "ccxx.sh")
    if os.environ.get("VERIF_NO_CCACHE") or not shutil.which("ccache") or not os.access(wrapper, os.X_OK):
        return "g++"
    os.environ.setdefault("CCACHE_DIR", os.path.join(vlib.VERIF, "work", "ccache-mtest"))
    os.environ.setdefault("CCACHE_MAXSIZE", "4G")
    return wrapper


def build(ck, name, main, sources, sanitize=True, extra_includes=()):
    """compile `sources` (names under mtest/src of the current tree) and the harness `main` in parallel,
    link against the prebuilt TFEL libraries; returns the binary path"""
    if vlib.BUILD_MATCHES_REPO:
        ck.ensure_targets("TFELMTest")
    else:
        ck.notes.append("scratch worktree without its own build tree: the anchored mtest sources are compiled "
                        "from the worktree into the harness; the prebuilt libraries of %s only provide the "
                        "non-anchored remainder" % vlib.BUILD)
    jobs = [(s + ".o", [os.path.join(vlib.REPO, "mtest", "src", s + ".cxx")]) for s in sources]
    jobs.append(("main_%s.o" % name, [main]))
    from concurrent.futures import ThreadPoolExecutor
    cxx = compiler()
    objs = {}
    with ThreadPoolExecutor(max_workers=4) as ex:   # at most 4 parallel compiles (shared machine)
        futs = {j[0]: ex.submit(ck.cxx, j[0], j[1], flags=["-c"], includes=includes() + list(extra_includes), defines=DEFINES,
                                sanitize=sanitize, compiler=cxx) for j in jobs}
        for n, f in futs.items():
            objs[n] = f.result()
    empty = ck.write("empty_%s.cxx" % name, "")
    last = None
    for attempt in range(4):
        # the shared libraries of the build tree may be in the middle of a relink by a concurrent build:
        # a failed link is retried a few times before it counts as a broken tie
        try:
            libs = [objs[j[0]] for j in jobs] + ck.libflags(*LIBS)
            return ck.cxx(name, [empty], libs=libs, sanitize=sanitize)
        except vlib.BuildError as e:
            last = e
            import time
            time.sleep(30)
    raise last


def run_harness(ck, harness, text, timeout=2400):
    """run the harness; a failure to *load* the shared libraries of the build tree (concurrent relink) is
    retried, anything else is returned as is"""
    import time
    p = None
    for attempt in range(4):
        p = ck.run([harness], input=text, timeout=timeout)
        if p.returncode != 0 and not p.stdout and ("error while loading shared libraries" in p.stderr or
                                                   "symbol lookup error" in p.stderr or
                                                   "undefined symbol" in p.stderr):
            time.sleep(30)
            continue
        break
    return p


def lean_checked(ck, props):
    """ck.lean, with a guard: when the build reports success but the theorems could not be audited (an
    olean rebuilt or removed concurrently by another lake process), retry once; if the audit is still
    incomplete the result is marked as failed so that it is reported (never a silent pass)"""
    import time
    res = ck.lean(props, props)
    if res.ok and (res.failed or not res.theorems):
        time.sleep(30)
        ck.lean_results.pop()
        res = ck.lean(props, props)
        if res.ok and (res.failed or not res.theorems):
            res.ok = False
            if not res.failed:
                res.failed.append({"file": "audit", "line": 0, "theorem": None, "msg": "no theorem could be audited",
                                   "is_prop": True})
    return res


def hx(x):
    return "%016x" % struct.unpack("<Q", struct.pack("<d", float(x)))[0]


def uh(s):
    return struct.unpack("<d", struct.pack("<Q", int(s, 16)))[0]


def is_hex(w):
    return len(w) == 16 and all(c in "0123456789abcdef" for c in w)


def pretty(line):
    """decode the bit patterns of an answer/request line for the replay files"""
    out = []
    for w in line.split():
        if is_hex(w):
            out.append(repr(uh(w)))
        elif "=" in w and is_hex(w.split("=", 1)[1]):
            out.append(w.split("=", 1)[0] + "=" + repr(uh(w.split("=", 1)[1])))
        else:
            out.append(w)
    return " ".join(out)
