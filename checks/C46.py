"""C46 — the mfront inter-process lock provides mutual exclusion (tie: M + hooks, trace validation).

The real MFrontLock.cxx (hooked: one event per atomic section, private semaphore name) is run by
real processes over seeded histories (runs that touch / do not touch the lock and exit, kills,
then contention of 2..16 processes under perturbed schedules).  Every logged history must be
accepted by the Lean transition system `fixed` (for which `count + #guards <= 1` and mutual
exclusion are proved over all histories), the observed semaphore values must be the model's, and
the independent overlap detector must never see two processes inside.
"""
import os
import random
import shutil
from concurrent.futures import ThreadPoolExecutor

import vlib

PROPS = ["TfelVerif.C46.Props"]
SRC = "mfront/src/MFrontLock.cxx"
HOOK = os.path.join(vlib.VERIF, "patches", "C46-hook-MFrontLock.cxx.diff")


def hooked_source(ck):
    """the repo file when it carries the hooks, else a temporary hooked copy (never touches the repo)"""
    src = os.path.join(vlib.REPO, SRC)
    if "TFEL_VERIF_HOOKS" in open(src).read():
        return src, "hooks present in the tree"
    dst = ck.path("MFrontLock.cxx")
    shutil.copyfile(src, dst)
    p = vlib.sh(["patch", "-s", "-F3", "--no-backup-if-mismatch", dst, HOOK])
    if p.returncode != 0 or "TFEL_VERIF_HOOKS" not in open(dst).read():
        raise vlib.BuildError("the C46 hook patch no longer applies to %s" % SRC, p.stdout + p.stderr)
    return dst, "hooks applied to a temporary copy of the current file (patches/C46-hook-MFrontLock.cxx.diff)"


# ---------------------------------------------------------------- the lock-protected sections (anchored callers)
GUARD_SITES = [
    # (file, start of the function, first statement that must be inside the protected section)
    ("mfront/src/MFront.cxx", "void MFront::analyseTargetsFile() {", r"std::ifstream\s+test\{"),
    ("mfront/src/MFront.cxx", "void MFront::generateDefsFiles() {", r"std::ofstream\s+def\{"),
    ("mfront/src/MFront.cxx", "void MFront::writeTargetsDescription() const {", r"std::ofstream\s+file\{"),
    ("mfront/src/CMakeGenerator.cxx", "void generateCMakeListsFile(", r"std::ofstream\s+m\("),
    ("mfront/src/MakefileGenerator.cxx", "void generateMakeFile(", r"std::ofstream\s+m\("),
]


def strip_cxx(text):
    """comments and string/char literals blanked (same length, line structure kept)"""
    import re
    def blank(m):
        return re.sub(r"[^\n]", " ", m.group(0))
    return re.sub(r'//[^\n]*|/\*.*?\*/|"(?:\\.|[^"\\\n])*"|\'(?:\\.|[^\'\\\n])*\'', blank, text, flags=re.S)


def check_guard_sites(ck):
    """Structural tie of the callers anchored by the property (MFront.cxx, CMakeGenerator.cxx, MakefileGenerator.cxx):
    the sections the theorems call `critical` are the scopes of named `MFrontLockGuard` objects. Every recorded
    site must still declare a named guard at the top level of the function, before the first access to the
    shared file, and nothing in these files may use the lock otherwise (temporary guard, explicit lock()/unlock()).
    Returns the number of sites verified."""
    import re
    ok = 0
    texts = {}
    for rel, start, first in GUARD_SITES:
        if rel not in texts:
            try:
                texts[rel] = strip_cxx(open(os.path.join(vlib.REPO, rel)).read())
            except OSError as e:
                ck.violation("tie:guard-site:" + rel, "cannot read %s: %r" % (rel, e), {"file": rel}, False)
                texts[rel] = ""
        t = texts[rel]
        a = t.find(start)
        if a < 0:
            ck.violation("tie:guard-site:%s:%s" % (rel, start.split("(")[0].split()[-1]), "%s: function `%s` not found" % (rel, start),
                         {"file": rel, "function": start}, False)
            continue
        # body of the function: from the first `{` at or after the signature to its matching `}`
        i = t.index("{", a + len(start) - 1)
        depth, j = 0, i
        while j < len(t):
            if t[j] == "{":
                depth += 1
            elif t[j] == "}":
                depth -= 1
                if depth == 0:
                    break
            j += 1
        body = t[i:j + 1]
        name = start.split("(")[0].split()[-1]
        # named guard declared at depth 1
        g = None
        d = 0
        for m in re.finditer(r"[{}]|\bMFrontLockGuard\s+[A-Za-z_]\w*\s*;", body):
            tok = m.group(0)
            if tok == "{":
                d += 1
            elif tok == "}":
                d -= 1
            elif d == 1 and g is None:
                g = m.start()
        f = re.search(first, body)
        why = None
        if g is None:
            why = "no named MFrontLockGuard object is declared at the top level of the function (a temporary `MFrontLockGuard{}` or a guard in an inner block is released before the section ends)"
        elif f is None:
            why = "the first access to the shared file (`%s`) was not found" % first
        elif f.start() < g:
            why = "the shared file is opened before the lock is taken"
        if why:
            ck.violation("%s:%s:unprotected-section" % (rel, name),
                         "%s, %s: %s; two mfront processes can be inside this section together" % (rel, name, why),
                         {"file": rel, "function": name, "expected": "`MFrontLockGuard <name>;` at the top level of the function, before `%s`" % first,
                          "lines_mentioning_the_lock": [l.strip() for l in body.splitlines() if "MFrontLock" in l]}, False)
        else:
            ok += 1
    for rel, t in texts.items():
        odd = [l.strip() for l in t.splitlines()
               if "MFrontLock" in l and not re.match(r"\s*(#include.*|MFrontLockGuard\s+[A-Za-z_]\w*\s*;)\s*$", l)]
        if odd:
            ck.violation("%s:lock-used-outside-a-guard" % rel,
                         "%s uses the lock otherwise than through a named MFrontLockGuard object: %s" % (rel, odd[:3]),
                         {"file": rel, "lines": odd[:10]}, False)
    return ok


def gen_scenarios(rng, quick):
    """list of (name, kind, text, expected counts)"""
    out = []

    def finish(name, kind, phases, jitter):
        lines = ["scenario %s %d %d" % (name, rng.randrange(1, 10**6), jitter)]
        n_lock = n_open = n_proc = n_uops = 0
        for ph in phases:
            lines.append("phase")
            for idx, ops in ph:
                lines.append("proc %d %s" % (idx, " ".join(ops)))
                n_proc += 1
                n_lock += sum(1 for o in ops if o[0] in "GBKH")
                n_uops += sum(1 for o in ops if o[0] == "U")
                n_open += 1 if any(o[0] in "OGBKHU" for o in ops) else 0
        lines.append("end")
        out.append({"name": name, "kind": kind, "text": "\n".join(lines) + "\n",
                    "locks": n_lock, "uops": n_uops, "opens": n_open, "procs": n_proc})

    # the 3-step witness of DESIGN: (A: open, exit) . (B: open, lock) . (C: open, lock)
    finish("witness", "witness", [[(0, ["O"])], [(1, ["B40000"]), (2, ["B40000"])]], 0)
    # a process blocked in sem_wait receives SIGUSR1 (handler without SA_RESTART) while another one
    # is inside: sem_wait returns -1/EINTR and the waiter must not enter (1..4 waiters, seeded timing)
    for i in range(2 if quick else 12):
        nwait = (i % 4) + 1 if not quick else rng.choice([1, 2, 3, 4])
        phases, idx = [], 0
        if rng.random() < 0.5:
            phases.append([(idx, ["G%d" % rng.randint(0, 200)])])
            idx += 1
        ph = [(idx, ["H%d:3000000:%d" % (nwait, rng.choice([200, 500, 1500]))])]
        idx += 1
        for _ in range(nwait):
            ph.append((idx, ["S%d" % rng.randint(200, 3000), "U%d" % rng.choice([0, 100, 1000])]))
            idx += 1
        phases.append(ph)
        phases.append([(idx, ["G50"]), (idx + 1, ["G50"])])       # the lock still works afterwards
        finish("eintr%d" % i, "eintr", phases, rng.choice([0, 100]))
    n = 6 if quick else 60
    for i in range(n):
        idx = 0
        phases = []
        kills = (i % 3 == 2)
        for _ in range(rng.randint(1, 3)):                 # earlier runs, one after the other
            ops = rng.choice([[], ["O"], ["G%d" % rng.randint(0, 300)], ["G50", "G50"], ["O", "G100"]])
            if kills and rng.random() < 0.4:
                ops = ops + ["k"]
            phases.append([(idx, ops)])
            idx += 1
        m = rng.choice([2, 3, 4, 8, 16]) if quick else rng.randint(2, 16)
        ph = []
        for _ in range(m):                                  # contention
            ops = []
            for _ in range(rng.randint(1, 3)):
                if rng.random() < 0.3:
                    ops.append("S%d" % rng.randint(0, 500))
                ops.append("G%d" % rng.choice([0, 50, 200, 1000]))
            if rng.random() < 0.15:
                ops = ["O"] + ops
            if kills and rng.random() < 0.2:
                ops.append("k")
            ph.append((idx, ops))
            idx += 1
        if rng.random() < 0.5:
            ph.append((idx, []))                            # a run that never touches the lock
            idx += 1
        phases.append(ph)
        if rng.random() < 0.5:                              # one more sequential run afterwards
            phases.append([(idx, ["G100"])])
            idx += 1
        if kills:                                           # last: a process dies inside its critical section
            phases.append([(idx, ["K100"])])
            idx += 1
        finish("h%d" % i, "kills" if kills else "history", phases, rng.choice([0, 100, 400]))
    return out


def run(ck):
    rng = random.Random(ck.seed)
    src, hook_note = hooked_source(ck)
    ck.log(hook_note)
    harness = ck.cxx("c46h", ["C46/harness.cxx", src, vlib.REPO + "/mfront/src/MFrontLogStream.cxx"],
                     includes=[vlib.REPO + "/mfront/include", "/repo/_build/include", "/repo/_build/mfront/include"],
                     libs=["-ldl", "-lpthread"])
    driver = ck.lean_exe("c46driver", "TfelVerif/C46/Driver.lean")
    res = ck.lean(PROPS, PROPS)
    ck.lean_violations(res)
    if ck.tier == "thorough" and res.ok:
        for m, log in ck.leanchecker(PROPS):
            ck.violation("leanchecker:" + m, "leanchecker rejects " + m, {"log": log}, False)

    guard_sites_ok = check_guard_sites(ck)
    scen = gen_scenarios(rng, ck.quick)
    nworkers = 4
    chunks = [scen[i::nworkers] for i in range(nworkers)]

    def work(k):
        if not chunks[k]:
            return ""
        p = ck.run([harness, ck.path("log%d.txt" % k)], input="".join(s["text"] for s in chunks[k]), timeout=1500)
        return p.stdout + ("\nharness-exit %d %s\n" % (p.returncode, p.stderr[-300:].replace("\n", " ")) if p.returncode else "")

    with ThreadPoolExecutor(max_workers=nworkers) as ex:
        outs = list(ex.map(work, range(nworkers)))
    traces, obs = {}, {}
    for o in outs:
        for line in o.splitlines():
            f = line.split()
            if len(f) >= 2 and f[0] == "trace":
                traces[f[1]] = f[2:]
            elif len(f) >= 2 and f[0] == "obs":
                obs[f[1]] = dict(x.split("=", 1) for x in f[2:])
            elif f and f[0] == "harness-exit":
                ck.violation("harness-crash", "the C46 harness aborted: " + line, {"output": line}, False)
    text = "".join("%s %s\n" % (s["name"], " ".join(t for t in traces.get(s["name"], ["missing"]) if t[0] != "r")) for s in scen)
    pm = ck.run([driver], input=text, timeout=600)
    verdicts = {}
    for line in pm.stdout.splitlines():
        f = line.split()
        if f:
            verdicts[f[0]] = dict(x.split("=", 1) for x in f[1:] if "=" in x)

    reported = set()
    n_events = 0
    kinds = {}
    values = {}
    distinct = set()
    accepted = 0
    refused = interrupted = 0
    for s in scen:
        name = s["name"]
        tr = traces.get(name)
        ob = obs.get(name, {})
        vd = verdicts.get(name, {})
        if tr is None:
            ck.violation("harness-missing:" + name, "no trace for scenario %s" % name, {"scenario": s["text"]}, False)
            continue
        n_events += len(tr)
        refused += sum(1 for t in tr if t[0] == "r")
        interrupted += sum(1 for t in tr if t[0] == "i")
        for t in tr:
            kinds[t[0]] = kinds.get(t[0], 0) + 1
            if t[0] == "v":
                values[t[1:]] = values.get(t[1:], 0) + 1
        if s["procs"] >= 3 and any(t[0] == "l" for t in tr):
            distinct.add(" ".join(tr))
        max_in = int(ob.get("max_in_cs", "0"))
        seen_vals = [int(t[1:]) for t in tr if t[0] == "v" and t[1:] != "-"]
        rep = {"site": SRC, "scenario": s["text"], "history_logged_by_the_real_code": " ".join(tr),
               "observed_semaphore_values_after_each_phase": [t[1:] for t in tr if t[0] == "v"],
               "max_processes_inside_critical_sections_together(overlap detector)": max_in,
               "harness_status": ob.get("status"), "model_verdict": vd,
               "legend": "o=sem_open l=sem_wait returned 0 (section entered) i=sem_wait returned -1/EINTR r=lock() refused (exception) u=sem_post x=process exit k/K=killed outside/inside v=sem_getvalue"}
        overlap = max_in >= 2 or (vd.get("maxholders", "-").isdigit() and int(vd["maxholders"]) >= 2)
        too_many = any(v >= 2 for v in seen_vals)
        fixed_v = vd.get("fixed", "missing")
        if ob.get("status") == "skipped":
            continue
        if ob.get("status") != "ok":
            key = "%s:harness-%s" % (SRC, ob.get("status", "none").split("(")[0])
            if key not in reported:
                reported.add(key)
                ck.violation(key, "scenario %s: %s (a process could not take a free lock, or failed)" % (name, ob.get("status")), rep, False)
            continue
        if fixed_v == "accept":
            n_l = sum(1 for t in tr if t[0] == "l")
            n_r = sum(1 for t in tr if t[0] == "r")
            # every U either got the lock or was refused after an interrupted sem_wait
            counts_ok = (n_l + n_r == s["locks"] + s["uops"] and n_l == int(ob.get("entries", "-1"))
                         and sum(1 for t in tr if t[0] == "o") == s["opens"]
                         and all(("i" + t[1:]) in tr[:x] for x, t in enumerate(tr) if t[0] == "r"))
            if overlap or too_many:
                key = SRC + ":overlap-with-accepted-trace"
                if key not in reported:
                    reported.add(key)
                    ck.violation(key, "scenario %s: %d processes inside critical sections together" % (name, max_in), rep, True)
            elif not counts_ok:
                key = "corr:" + SRC + ":events-missing"
                if key not in reported:
                    reported.add(key)
                    ck.violation(key, "scenario %s: the logged history lacks events of the scenario (hooks no longer at the atomic sections)" % name, rep, False)
            else:
                accepted += 1
            continue
        # the history is not a behaviour of the model for which mutual exclusion is proved
        tok = fixed_v.split(":")[1] if ":" in fixed_v else "?"
        pstate = fixed_v.split(":")[-1]
        k_rej = int(fixed_v.split("@")[1].split(":")[0]) if "@" in fixed_v else -1
        mtr = [t for t in tr if t[0] != "r"]
        prev_same = [t for t in mtr[:max(k_rej, 0)] if t[1:] == tok[1:] and t[0] != "v"]
        if tok[0] == "l" and prev_same and prev_same[-1][0] == "i":
            key = SRC + ":lock:EINTR-treated-as-acquired"
            what = ("MFrontLock::lock goes on after sem_wait was interrupted by a signal (-1/EINTR): history %s: process %s "
                    "enters at event %s while the count is %s; semaphore values observed %s (created with 1); %d processes inside together"
                    % (name, tok[1:], fixed_v, fixed_v.split(":")[2] if fixed_v.count(":") >= 2 else "?",
                       rep["observed_semaphore_values_after_each_phase"], max_in))
        elif vd.get("orig") == "accept" and tok[0] == "u" and pstate == "exited":
            key = SRC + ":~MFrontLock:sem_post-at-exit"
            what = ("MFrontLock::~MFrontLock posts the semaphore at process exit: history %s rejected at event %s; "
                    "semaphore values observed %s (created with 1); %d processes inside together"
                    % (name, fixed_v, rep["observed_semaphore_values_after_each_phase"], max_in))
        else:
            key = SRC + ":protocol:" + tok[0]
            what = "history %s of the real lock is not a behaviour of the model: %s" % (name, fixed_v)
        found = overlap or too_many
        if not found:
            key = "corr:" + key
        if key not in reported:
            reported.add(key)
            ck.violation(key, what, rep, found)

    ck.assumptions += [
        "M: the transition system of Model.lean is tied to MFrontLock.cxx by trace validation: hooks (guard TFEL_VERIF_HOOKS) log one event per atomic section; every history logged by real processes must be accepted by the model and the observed sem_getvalue / overlap detector must agree (differential testing over the histories run, not proof)",
        "POSIX named-semaphore semantics are modelled, not verified: sem_open(O_CREAT,1) initialises only on creation, sem_wait/sem_post atomic, the semaphore persists across processes, nobody else posts or unlinks it; reboot (/dev/shm cleared) restarts the history",
        "the callers anchored by the property (MFront.cxx analyseTargetsFile / generateDefsFiles / writeTargetsDescription, CMakeGenerator.cxx generateCMakeListsFile, MakefileGenerator.cxx generateMakeFile) are not executed: a structural tie checks on every run that each still declares a named MFrontLockGuard at the top level of the function before the shared file is opened and uses the lock in no other way (the critical sections of the theorems are the scopes of such guards)",
        "processes are single-threaded in their use of the lock; sem_wait interrupted by a signal is the model step `intr` (count unchanged, nothing acquired; the code may raise or retry, never enter); a process killed inside a critical section leaves the lock taken (deadlock, not a mutual-exclusion failure) - stated by the theorems' hypotheses",
        "the log order is the kernel's order of O_APPEND writes: `lock` is logged after sem_wait returned and `unlock` before sem_post, so the log is a linearisation of the semaphore operations",
        hook_note,
    ]
    sample_names = [s["name"] for s in scen[:3]]
    return ck.finish({
        "evaluations": n_events,
        "distinct_nontrivial": len(distinct),
        "rule": "evaluations = events of the real lock validated against the model; histories = seeded scenarios (earlier runs with/without the lock, kills, then 2..16 contending processes, schedules perturbed at the hook points); distinct_nontrivial = distinct logged histories with >= 3 processes and at least one lock",
        "samples": ["%s: %s -> %s" % (n, " ".join(traces.get(n, [])), verdicts.get(n, {})) for n in sample_names],
        "traces_validated_against_impl": len(traces), "traces_accepted": accepted,
        "processes_run": sum(s["procs"] for s in scen),
        "event_kinds": kinds, "observed_semaphore_values": values,
        "sem_wait_interrupted": interrupted, "lock_refused_after_interrupt": refused,
        "max_processes_in_a_history": max(s["procs"] for s in scen),
        "guard_sites_verified": guard_sites_ok, "guard_sites_recorded": len(GUARD_SITES),
        "exhaustive": False,
    })
