"""C05 — exact python reference for the traced units (support of the failing-input search; not part of a proof).

Everything is computed over Q(sqrt2) (emit.Q2) with 3x3 matrices (lib/m3.M3). A reference is a function
`ref(rng) -> (env, expected, fns, meta)`:
  env      : input name -> Q2
  expected : list of Q2 (or None) in the order of the unit's outputs
  fns      : callback evaluating the uninterpreted symbols of the DAG (abs/max/min exact; log/sqrt/f/df/solver
             results are *arbitrary but fixed* functions, since the theorems hold for any interpretation)
  meta     : what a double-precision replay on the real code needs (tensor, eps, expected values as floats)
"""
from fractions import Fraction

from emit import Q2
from m3 import M3, SQ2, q

ZERO = Q2(0)
ONE = Q2(1)
HALF = Q2(Fraction(1, 2))
ISQ2 = Q2(0, Fraction(1, 2))   # 1/sqrt2


def sign(x):
    """exact sign of a + b sqrt2"""
    a, b = x.a, x.b
    if b == 0:
        return (a > 0) - (a < 0)
    if a == 0:
        return (b > 0) - (b < 0)
    sa, sb = (a > 0) - (a < 0), (b > 0) - (b < 0)
    if sa == sb:
        return sa
    # opposite signs: compare a^2 with 2 b^2
    d = a * a - 2 * b * b
    if d == 0:
        return 0
    return sa if d > 0 else sb


def lt(x, y):
    return sign(x - y) < 0


def qabs(x):
    return -x if sign(x) < 0 else x


def qmax(x, y):
    return y if lt(x, y) else x


def qmin(x, y):
    return y if lt(y, x) else x


# arbitrary fixed interpretations of the uninterpreted function symbols
def fake_f(x): return x * x * x - x * Q2(Fraction(1, 3)) + Q2(Fraction(2, 7))
def fake_df(x): return x * x * Q2(Fraction(5, 2)) + x + Q2(Fraction(1, 11))
def fake_log(x): return x * x * Q2(Fraction(3, 5)) - Q2(Fraction(4, 9))
def fake_sqrt(x): return x * Q2(Fraction(7, 4)) + x * x * Q2(Fraction(1, 13))


def rnd(rng, lo=-6, hi=6, nonzero=False):
    while True:
        v = Fraction(rng.randint(lo, hi), rng.choice([1, 1, 2, 3]))
        if v != 0 or not nonzero:
            return v


def rnd_matrix(rng):
    return M3([[rnd(rng) for _ in range(3)] for _ in range(3)])


def rnd_orth(rng, two_d=False):
    """rational orthogonal matrix by the Cayley transform of a skew matrix"""
    while True:
        a, b, c = (Fraction(rng.randint(-4, 4), rng.choice([1, 2, 3])) for _ in range(3))
        if two_d:
            b = c = Fraction(0)
        A = M3([[0, a, b], [-a, 0, c], [-b, -c, 0]])
        I = M3.one()
        try:
            R = (I - A) * (I + A).inv()
        except ZeroDivisionError:
            continue
        return R


def m2(M):
    return M3([[M.a[0][0], M.a[0][1], 0], [M.a[1][0], M.a[1][1], 0], [0, 0, 1]])


def iso(M, d):
    return M * M3.diag(*d) * M.T()


def had(T, A):
    return M3([[T.a[i][j] * A.a[i][j] for j in range(3)] for i in range(3)])


def dk_act(M, T, H):
    return M * had(T, M.T() * H * M) * M.T()


def theta(t00, t11, t22, t01, t02, t12):
    return M3.sym(t00, t11, t22, t01, t02, t12)


def of_mandel(v):
    """symmetric matrix whose stored components are v (3, 4 or 6 numbers)"""
    v = list(v) + [ZERO] * (6 - len(v))
    return M3.sym(v[0], v[1], v[2], v[3] * ISQ2, v[4] * ISQ2, v[5] * ISQ2)


def basis(n, j):
    v = [ZERO] * n
    v[j] = ONE
    return of_mandel(v)


def table(N, act):
    """row-major table of a linear map H -> act(H) in the storage of dimension N"""
    n = {1: 3, 2: 4, 3: 6}[N]
    cols = [act(basis(n, j)).mandel(N) for j in range(n)]
    return [cols[j][i] for i in range(n) for j in range(n)]


def m_env(M, prefix="m"):
    return {"%s%d%d" % (prefix, i, j): M.a[i][j] for i in range(3) for j in range(3)}


# ------------------------------------------------------------------ eigenvalue patterns
EPS = Fraction(1, 100)


def spectrum(rng, pat):
    """eigenvalues satisfying the branch pattern for eps = 1/100 (exactly equal or nearly equal in eps branches)"""
    def near(x):
        return x + rng.choice([Fraction(0), Fraction(0), Fraction(1, 1000), Fraction(-3, 1000), Fraction(9, 1000)])
    while True:
        a, b, c = rnd(rng), rnd(rng), rnd(rng)
        if pat in ("dist", "any"):
            l = [a, b, c]
            ok = abs(a - b) >= EPS and abs(a - c) >= EPS and abs(b - c) >= EPS
        elif pat == "full":
            l = [a, near(a), near(a)]
            ok = abs(l[0] - l[1]) < EPS and abs(l[0] - l[2]) < EPS
        elif pat == "p01":
            l = [a, near(a), c]
            ok = abs(l[0] - l[1]) < EPS and abs(l[0] - l[2]) >= EPS
        elif pat == "p02":
            l = [a, b, near(a)]
            ok = abs(l[0] - l[1]) >= EPS and abs(l[0] - l[2]) < EPS
        elif pat == "p12":
            l = [a, b, near(b)]
            ok = abs(l[0] - l[1]) >= EPS and abs(l[0] - l[2]) >= EPS and abs(l[1] - l[2]) < EPS
        elif pat == "eq":       # 2D: not (|l0-l1| > eps)
            l = [a, near(a), c]
            ok = not abs(l[0] - l[1]) > EPS
        elif pat == "dist2":    # 2D
            l = [a, b, c]
            ok = abs(a - b) > EPS
        else:
            raise KeyError(pat)
        if ok:
            return [q(x) for x in l]


def deriv_theta(N, pat, l, f, g):
    two = Q2(2)
    if N == 1:
        return theta(g[0], g[1], g[2], ZERO, ZERO, ZERO)
    if N == 2:
        if pat == "dist":
            return theta(g[0], g[1], g[2], (f[0] - f[1]) / (l[0] - l[1]), ZERO, ZERO)
        a = (g[0] + g[1]) / two
        return theta(a, a, g[2], a, ZERO, ZERO)
    if pat == "dist":
        return theta(g[0], g[1], g[2], (f[0] - f[1]) / (l[0] - l[1]), (f[0] - f[2]) / (l[0] - l[2]),
                     (f[1] - f[2]) / (l[1] - l[2]))
    if pat == "p01":
        a = (g[0] + g[1]) / two
        x = (f[0] - f[2]) / ((l[0] + l[1]) / two - l[2])
        return theta(a, a, g[2], a, x, x)
    if pat == "p02":
        a = (g[0] + g[2]) / two
        x = (f[0] - f[1]) / ((l[0] + l[2]) / two - l[1])
        return theta(a, g[1], a, x, a, x)
    if pat == "p12":
        a = (g[1] + g[2]) / two
        x = (f[0] - f[1]) / (l[0] - (l[1] + l[2]) / two)
        return theta(g[0], a, a, x, x, a)
    if pat == "full":
        a = (g[0] + g[1] + g[2]) / Q2(3)
        return theta(a, a, a, a, a, a)
    raise KeyError(pat)


def deriv_action(N, pat, M, l, f, g):
    """H -> d:H for the traced branch (full: a multiple of the identity whatever M)"""
    T = deriv_theta(N, pat, l, f, g)
    if N == 3 and pat == "full":
        return lambda H: H * T.a[0][0]
    if N == 1:
        return lambda H: dk_act(M3.one(), T, H)
    return lambda H: dk_act(M, T, H)


# ------------------------------------------------------------------ decomposition in positive and negative parts
def ppos(x): return x if sign(x) >= 0 else ZERO
def pneg(x): return x if sign(x) <= 0 else ZERO


def cls(x, eps):
    if lt(qabs(x), eps):
        return "z"
    return "p" if sign(x) > 0 else "n"


def th(c, positive):
    if c == "z":
        return HALF
    return ONE if (c == "p") == positive else ZERO


def val(x, c, positive):
    if c == "z":
        return ZERO
    return x if (c == "p") == positive else ZERO


def dec_branch(N, l, eps):
    c01 = lt(qabs(l[0] - l[1]), eps)
    if N == 2:
        return "eq" if c01 else "dist"
    c02 = lt(qabs(l[0] - l[2]), eps)
    c12 = lt(qabs(l[1] - l[2]), eps)
    if c01 and c02:
        return "full"
    if c01:
        return "p01"
    if c02:
        return "p02"
    if c12:
        return "p12"
    return "dist"


def dec_theta_vals(N, l, eps, positive):
    """(Theta table, eigenvalues of the part, branch) following DecompositionInPositiveAndNegativeParts.ixx with the
    intended (symmetric) cross terms"""
    pp = ppos if positive else pneg
    two = Q2(2)
    if N == 1:
        c = [cls(x, eps) for x in l]
        return theta(th(c[0], positive), th(c[1], positive), th(c[2], positive), ZERO, ZERO, ZERO), \
            [val(l[i], c[i], positive) for i in range(3)], "1d"
    br = dec_branch(N, l, eps)
    if N == 2:
        c2 = cls(l[2], eps)
        if br == "eq":
            vpm = (l[0] + l[1]) * HALF
            c = cls(vpm, eps)
            t = th(c, positive)
            return theta(t, t, th(c2, positive), t, ZERO, ZERO), \
                [val(vpm, c, positive), val(vpm, c, positive), val(l[2], c2, positive)], br
        c0, c1 = cls(l[0], eps), cls(l[1], eps)
        x = (pp(l[1]) - pp(l[0])) / (l[1] - l[0])
        return theta(th(c0, positive), th(c1, positive), th(c2, positive), x, ZERO, ZERO), \
            [val(l[0], c0, positive), val(l[1], c1, positive), val(l[2], c2, positive)], br
    if br == "full":
        vpm = (l[0] + l[1] + l[2]) / Q2(3)
        c = cls(vpm, eps)
        t = th(c, positive)
        return theta(t, t, t, t, t, t), None, br + "_" + ("s" if val(ONE, c, positive) == ONE else "0")
    if br in ("p01", "p02", "p12"):
        i, j = {"p01": (0, 1), "p02": (0, 2), "p12": (1, 2)}[br]
        k = 3 - i - j
        vpm = (l[i] + l[j]) * HALF
        c, ck = cls(vpm, eps), cls(l[k], eps)
        t, tk = th(c, positive), th(ck, positive)
        x = (pp(vpm) - pp(l[k])) / (vpm - l[k])
        T = [[None] * 3 for _ in range(3)]
        for a in range(3):
            for b in range(3):
                if a == k and b == k:
                    T[a][b] = tk
                elif a == k or b == k:
                    T[a][b] = x
                else:
                    T[a][b] = t
        vals = [None] * 3
        vals[i] = vals[j] = val(vpm, c, positive)
        vals[k] = val(l[k], ck, positive)
        return M3(T), vals, br
    c = [cls(x, eps) for x in l]
    T = [[None] * 3 for _ in range(3)]
    for a in range(3):
        for b in range(3):
            if a == b:
                T[a][b] = th(c[a], positive)
            else:
                s = ZERO
                if val(ONE, c[a], positive) == ONE:
                    s = s + l[a] / (l[a] - l[b])
                if val(ONE, c[b], positive) == ONE:
                    s = s + l[b] / (l[b] - l[a])
                T[a][b] = s
    return M3(T), [val(l[i], c[i], positive) for i in range(3)], br


DEC_SHADOW = {  # (unit suffix) -> shadow eigenvalues used by the tracer (harness/C05/trace.cxx), eps = 1/100
    1: {"ppp": (1, 2, 3.5), "nnn": (-1, -2, -3.5), "zzz": (0.002, -0.003, 0.004), "pnz": (1, -2, 0.002),
        "znp": (-0.002, -2, 1.5)},
    2: {"eq_zz": (0.001, 0.002, -0.003), "eq_pp": (1, 1.001, 2), "eq_nn": (-1, -1.001, -2), "eq_pn": (1, 1.001, -2),
        "eq_np": (-1, -1.001, 2), "dist_ppp": (1, 2, 3.5), "dist_nnn": (-1, -2, -3.5), "dist_zzz": (-0.006, 0.006, 0.001),
        "dist_pnp": (1, -2, 3.5), "dist_npn": (-1, 2, -3.5), "dist_zpn": (0.002, 2, -3.5), "dist_nzp": (-2, 0.002, 3.5)},
    3: {"full_z": (0.002, 0.003, 0.001), "full_p": (1, 1.001, 1.002), "full_n": (-1, -1.001, -1.002),
        "p01_zz": (0.001, 0.002, -0.0095), "p01_pp": (1, 1.001, 2), "p01_nn": (-1, -1.001, -2), "p01_pn": (1, 1.001, -2),
        "p02_zz": (0.001, -0.0095, 0.002), "p02_pp": (1, 2, 1.001), "p02_nn": (-1, -2, -1.001),
        "p12_zz": (-0.0095, 0.001, 0.002), "p12_pp": (2, 1, 1.001), "p12_nn": (-2, -1, -1.001),
        "dist_ppp": (1, 2, 3.5), "dist_nnn": (-1, -2, -3.5), "dist_pnz": (1, -2, 0.002), "dist_zzp": (-0.006, 0.006, 2),
        "dist_npn": (-1, 2, -3.5)},
}


def dec_signature(N, l, eps):
    """the full decision pattern of the decomposition code for (l, eps): units are traced per pattern"""
    if N == 1:
        return tuple(cls(x, eps) for x in l)
    br = dec_branch(N, l, eps)
    if N == 2:
        if br == "eq":
            return (br, cls((l[0] + l[1]) * HALF, eps), cls(l[2], eps))
        return (br, cls(l[0], eps), cls(l[1], eps), cls(l[2], eps), sign(l[0]) >= 0, sign(l[1]) >= 0,
                sign(l[0]) <= 0, sign(l[1]) <= 0)
    if br == "full":
        return (br, cls((l[0] + l[1] + l[2]) / Q2(3), eps))
    if br in ("p01", "p02", "p12"):
        i, j = {"p01": (0, 1), "p02": (0, 2), "p12": (1, 2)}[br]
        k = 3 - i - j
        vpm = (l[i] + l[j]) * HALF
        return (br, cls(vpm, eps), cls(l[k], eps), sign(vpm) >= 0, sign(l[k]) >= 0, sign(vpm) <= 0, sign(l[k]) <= 0)
    return (br,) + tuple(cls(x, eps) for x in l)


def dec_spectrum(rng, N, name):
    """random eigenvalues with the same decision pattern as the traced shadow values of unit `name`"""
    eps = q(EPS)
    sh = [q(Fraction(x).limit_denominator(100000)) for x in DEC_SHADOW[N][name]]
    target = dec_signature(N, sh, eps)

    def pick(c):
        if c == "z":
            return Fraction(rng.randint(-9, 9), 1000)
        v = Fraction(rng.randint(1, 40), rng.choice([1, 2, 4, 5, 10]))
        return v if c == "p" else -v
    for _ in range(4000):
        kinds = name.split("_")[-1]
        if N == 1:
            l = [pick(k) for k in kinds]
        elif name.startswith(("eq", "p01", "p02", "p12")):
            i, j = {"eq": (0, 1), "p01": (0, 1), "p02": (0, 2), "p12": (1, 2)}[name.split("_")[0]]
            k = 3 - i - j
            a = pick(kinds[0])
            l = [None] * 3
            l[i] = a
            l[j] = a + rng.choice([Fraction(0), Fraction(0), Fraction(1, 1000), Fraction(-2, 1000), Fraction(7, 1000)])
            l[k] = pick(kinds[1])
        elif name.startswith("full"):
            a = pick(kinds[0])
            l = [a, a + rng.choice([Fraction(0), Fraction(1, 1000), Fraction(-4, 1000)]),
                 a + rng.choice([Fraction(0), Fraction(2, 1000), Fraction(-3, 1000)])]
        else:
            l = [pick(k) for k in kinds]
        l = [q(x) for x in l]
        if dec_signature(N, l, eps) == target:
            return l
    raise RuntimeError("no spectrum for pattern " + name)


# ---- derivatives of the eigen-tensors (mutation audit 2026-09-22; StensorComputeEigenVectorsDerivatives.hxx)
def reg_inverse(x, eps):
    """regularized_inverse of the code: 0 at x = 0, 1/x for |x| > eps, (x/eps)^2 (4 - (x/eps)^2) / (3 x) inside"""
    if sign(x) == 0:
        return ZERO
    y = x / eps
    if sign(qabs(y) - Q2(1)) > 0:
        return Q2(1) / x
    return y * y * (Q2(4) - y * y) / (Q2(3) * x)


def eigtd_action(N, i, M, l, eps):
    """H -> d(n_i (x) n_i)[H] = M (T o (M^T H M)) M^T with T_ij = T_ji = r(l_i - l_j) for j != i, zero elsewhere
    (2D: only the in-plane pair (0,1) interacts; the third eigen-tensor is constant)"""
    z = [[ZERO] * 3 for _ in range(3)]
    for j in range(3):
        if j == i:
            continue
        if N == 2 and (i == 2 or j == 2):
            continue
        z[i][j] = z[j][i] = reg_inverse(l[i] - l[j], eps)
    T = M3(z)
    return lambda H: dk_act(M, T, H)
