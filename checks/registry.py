"""Registry of claimed properties -> MANIFEST.json (bin/mkmanifest).

CHECKS[pid] = dict(text=..., note=..., technique=..., design_ref=..., engine=...)
NOT_APPLICABLE[pid] = reason.  Every property of properties.jsonl is in exactly one.
"""

import glob
import json
import os

CHECKS = {}
# one file per claimed property: checks/meta/Cxx.json  {text, note, technique, ties, category?, design_ref?}
# ... claimed only once the coordinator has validated the check on the clean tree: checks/meta/ENABLED
_en = os.path.join(os.path.dirname(os.path.abspath(__file__)), "meta", "ENABLED")
ENABLED = set(open(_en).read().split()) if os.path.exists(_en) else set()
for _f in sorted(glob.glob(os.path.join(os.path.dirname(os.path.abspath(__file__)), "meta", "C*.json"))):
    if os.path.basename(_f)[:-5] in ENABLED:
        CHECKS[os.path.basename(_f)[:-5]] = json.load(open(_f))
HOOK_COMMITS = []
_h = os.path.join(os.path.dirname(os.path.abspath(__file__)), "meta", "hook_commits.txt")
if os.path.exists(_h):
    HOOK_COMMITS = [l.split()[0] for l in open(_h) if l.strip() and not l.startswith("#")]

NOT_APPLICABLE = {
    "C35": "memory safety / termination of the whole mfront front end on arbitrary bytes: no executable Lean model short of a C++ semantics expresses it; fuzzing is not a proof (DESIGN §6). Its lexer is covered by C31.",
    "C36": "determinism across runs/environment is a property of the real process's hidden inputs (hash order, clock, getenv); any Lean model of mfront as a function is deterministic by construction, so a theorem would be vacuous (DESIGN §6).",
    "C54": "same reason as C35 for the mtest/ptest drivers (DESIGN §6).",
}

NOT_YET = "check not built yet in this round (planned in DESIGN §5); not claimed until its machinery exists"
