"""C29 — ThreadPool runs every task exactly once and wait() is complete (tie: M + hooks).

The real ThreadPool.cxx / ThreadPool.ixx (hooked: one event per section made atomic by the pool's
mutex, seeded yields around them) run seeded scenarios: 1..16 workers, 1..4 caller threads adding
tasks (values, exceptions, void), calling wait(), reading futures, a late addTask on a stopping
pool, destruction with tasks still queued.  Every logged history must be accepted by the Lean
transition system `pool nw` (for which at-most-once / exactly-once, wait() completeness, worker
exit, rejection after stop and future content are proved for all interleavings), and the directly
observed outcomes (side-effect counters, futures, wait() completeness) must agree.
"""
import os
import random
import shutil
from concurrent.futures import ThreadPoolExecutor

import vlib

PROPS = ["TfelVerif.C29.Props"]
CXX = "src/System/ThreadPool.cxx"
IXX = "include/TFEL/System/ThreadPool.ixx"
HOOK_CXX = os.path.join(vlib.VERIF, "patches", "C29-hook-ThreadPool.cxx.diff")
HOOK_IXX = os.path.join(vlib.VERIF, "patches", "C29-hook-ThreadPool.ixx.diff")


def hooked(ck, rel, patch, dst):
    src = os.path.join(vlib.REPO, rel)
    if "TFEL_VERIF_HOOKS" in open(src).read():
        return src, False
    os.makedirs(os.path.dirname(dst), exist_ok=True)
    shutil.copyfile(src, dst)
    p = vlib.sh(["patch", "-s", "-F3", "--no-backup-if-mismatch", dst, patch])
    if p.returncode != 0 or "TFEL_VERIF_HOOKS" not in open(dst).read():
        raise vlib.BuildError("the C29 hook patch no longer applies to %s" % rel, p.stdout + p.stderr)
    return dst, True


def gen_scenarios(rng, quick):
    out = []
    n = 24 if quick else 200
    for k in range(n):
        heavy = (k % 8 == 7)
        nw = rng.choice([1, 1, 2, 2, 3, 4, 4, 8, 16]) if not heavy else rng.choice([4, 8, 16])
        ncallers = rng.randint(1, 4)
        jitter = rng.choice([0, 50, 200, 800]) if not heavy else rng.choice([0, 50])
        late = rng.random() < 0.4
        lines = ["scenario t%d %d %d %d" % (k, nw, rng.randrange(1, 10**6), jitter)]
        ntasks = 0
        for c in range(ncallers):
            ops = []
            nops = rng.randint(5, 40) if not heavy else rng.randint(150, 400 if quick else 1500)
            for _ in range(nops):
                u = rng.random()
                if u < 0.78:
                    dur = rng.choice([0, 0, 0, 20, 100, 500]) if not heavy else rng.choice([0, 0, 0, 10])
                    # v/x int tasks, n/m void tasks, a: void task with bound arguments, p/q: tasks returning a
                    # structure read through operator-> / operator* without a prior test (q throws)
                    kind = rng.choices("vxnmapq", weights=[30, 14, 14, 8, 12, 14, 8])[0]
                    ops.append("A%d:%s" % (dur, kind))
                    ntasks += 1
                elif u < 0.88:
                    ops.append("W")
                elif u < 0.96:
                    ops.append("G")
                else:
                    ops.append("S%d" % rng.randint(0, 300))
            lines.append("caller %d %s" % (c, " ".join(ops)))
        if late:
            lines.append("late")
        lines.append("end")
        out.append({"name": "t%d" % k, "nw": nw, "callers": ncallers, "late": late, "tasks": ntasks + (1 if late else 0),
                    "waits": sum(l.split().count("W") for l in lines if l.startswith("caller")),
                    "text": "\n".join(lines) + "\n"})
    return out


def run(ck):
    rng = random.Random(ck.seed)
    cxx, c1 = hooked(ck, CXX, HOOK_CXX, ck.path("ThreadPool.cxx"))
    ixx, c2 = hooked(ck, IXX, HOOK_IXX, ck.path("inc", "TFEL", "System", "ThreadPool.ixx"))
    hook_note = ("hooks present in the tree" if not (c1 or c2) else
                 "hooks applied to temporary copies of the current files (patches/C29-hook-ThreadPool.{cxx,ixx}.diff)")
    ck.log(hook_note)
    flags = ["-iquote", ck.path("inc")] if c2 else []
    harness = ck.cxx("c29h", ["C29/harness.cxx", cxx, vlib.REPO + "/src/System/ThreadedTaskResult.cxx"],
                     flags=flags, includes=["/repo/_build/include"], libs=["-lpthread"])
    driver = ck.lean_exe("c29driver", "TfelVerif/C29/Driver.lean")
    res = ck.lean(PROPS, PROPS)
    ck.lean_violations(res)
    if ck.tier == "thorough" and res.ok:
        for m, log in ck.leanchecker(PROPS):
            ck.violation("leanchecker:" + m, "leanchecker rejects " + m, {"log": log}, False)

    scen = gen_scenarios(rng, ck.quick)
    nchunks = 3
    chunks = [scen[i::nchunks] for i in range(nchunks)]

    def work(k):
        if not chunks[k]:
            return ""
        p = ck.run([harness], input="".join(s["text"] for s in chunks[k]), timeout=2400)
        return p.stdout + ("\nharness-exit %d %s\n" % (p.returncode, p.stderr[-300:].replace("\n", " ")) if p.returncode else "")

    with ThreadPoolExecutor(max_workers=nchunks) as ex:
        outs = list(ex.map(work, range(nchunks)))
    traces, obs = {}, {}
    for o in outs:
        for line in o.splitlines():
            f = line.split()
            if len(f) >= 3 and f[0] == "trace":
                traces[f[1]] = f[3:]
            elif len(f) >= 2 and f[0] == "obs":
                obs[f[1]] = dict(x.split("=", 1) for x in f[2:])
            elif f and f[0] == "harness-exit":
                ck.violation("corr:%s:harness-%s" % (CXX, "hang" if "HANG" in o else "crash"),
                             "the C29 harness %s: %s" % ("hung (a wait()/destructor never returned)" if "HANG" in o else "failed", line),
                             {"output_tail": o[-1500:]}, False)
    text = "".join("%s %d %s\n" % (s["name"], s["nw"], " ".join(traces[s["name"]])) for s in scen if s["name"] in traces)
    pm = ck.run([driver], input=text, timeout=1200)
    verdicts = {}
    for line in pm.stdout.splitlines():
        f = line.split()
        if f:
            verdicts[f[0]] = f[1:]

    reported = set()
    n_events = n_tasks = accepted = 0
    kinds = {}
    distinct = set()
    for s in scen:
        name = s["name"]
        if name not in traces:
            continue
        tr, ob, vd = traces[name], obs.get(name, {}), verdicts.get(name, ["missing"])
        n_events += len(tr)
        n_tasks += int(ob.get("tasks", "0"))
        for t in tr:
            k = t[:2] if t[0] == "w" else t[0]
            kinds[k] = kinds.get(k, 0) + 1
        if s["nw"] >= 2 or s["callers"] >= 2:
            distinct.add(hash(" ".join(tr)))
        direct = {k: int(ob.get(k, "0")) for k in ("ran_not_once", "wait_violations", "broken_futures")}
        late_bad = s["late"] and ob.get("late") != "1"
        rep = {"site": CXX, "scenario": s["text"] if len(s["text"]) < 4000 else s["text"][:4000] + " ...",
               "workers": s["nw"], "history_logged_by_the_real_code": " ".join(tr) if len(tr) < 600 else " ".join(tr[:600]) + " ...",
               "observed": ob, "model_verdict": " ".join(vd),
               "legend": "s<t> submit, r addTask rejected, p<i> worker i pops, e<i>:<t>:<r> body of t ran on worker i with result r (negative: exception), "
                         "f<i> worker i idle again, x<i> worker exits, S stop, J joined, wb/we/wi/wr<c> wait() of caller c: begin / queue seen empty / worker seen idle / return, g<t>:<r> future read"}
        prop_violated = any(direct.values()) or late_bad
        if vd[0] == "accept":
            acc = dict(x.split("=", 1) for x in vd[1:])
            consistent = (acc.get("submitted") == ob.get("tasks") == acc.get("executedOnce") and acc.get("joined") == "true"
                          and sum(1 for t in tr if t[:2] == "wr") == s["waits"] and int(ob.get("tasks", "-1")) == s["tasks"])
            if prop_violated:
                key = "%s:observed:%s" % (CXX, "+".join(k for k, v in direct.items() if v) or "late-addTask-accepted")
                if key not in reported:
                    reported.add(key)
                    ck.violation(key, "scenario %s: %s" % (name, ob), rep, True)
            elif not consistent:
                key = "corr:%s:events-missing" % CXX
                if key not in reported:
                    reported.add(key)
                    ck.violation(key, "scenario %s: accepted history but counts differ (model %s, observed %s, expected %d tasks / %d waits)"
                                 % (name, acc, ob, s["tasks"], s["waits"]), rep, False)
            else:
                accepted += 1
            continue
        why = vd[0]
        tok = why.split(":")[1] if ":" in why else "?"
        cls = tok[:2] if tok.startswith("w") else tok[:1]
        key = "%s:protocol:%s" % (CXX, cls)
        # a rejected `e` (second execution), `g` (future content), `s` after stop, `x`/`J` (exit with work left),
        # `wr`/`we`/`wi` (wait() observations) are themselves failures of the property on the implementation
        found = prop_violated or cls in ("e", "g")
        if not found:
            key = "corr:" + key
        if key not in reported:
            reported.add(key)
            ck.violation(key, "scenario %s: the history of the real pool is not a behaviour of the model: %s; observed %s" % (name, why, ob), rep, found)

    # a history that also shows the property failing on the implementation is the stronger report
    ck.violations = [v for v in ck.violations if not (v[0].startswith("corr:") and v[0][5:] in reported)]

    ck.assumptions += [
        "M: the transition system of Model.lean is tied to ThreadPool.cxx/.ixx by trace validation: hooks (guard TFEL_VERIF_HOOKS) log one event per section made atomic by the pool's mutex (the log order is the lock order), task bodies and future reads are logged by the harness; every history must be accepted and the observed side effects / futures / wait() completeness must agree (differential testing over the schedules run, not proof)",
        "C++ memory model, std::mutex (atomic sections) and std::condition_variable (Mesa semantics, spurious wake-ups) are assumed; blocking is not modelled (safety only)",
        "liveness (no lost wake-up, wait() terminates) is not proved: only enabledness lemmas (pop_enabled, exit_enabled, finish_enabled); a hang of the harness is reported as a correspondence failure",
        "std::packaged_task / std::future / Wrapper / ThreadedTaskResult plumbing is modelled as 'exec stores the outcome in the future'; tied by reading every future in the harness",
        "a pool with 0 threads (never runs anything) is outside the theorems (hypothesis 0 < nw)",
        hook_note,
    ]
    return ck.finish({
        "evaluations": n_events,
        "distinct_nontrivial": len(distinct),
        "rule": "evaluations = events of the real pool validated against the model over seeded scenarios (1..16 workers, 1..4 caller threads, tasks returning/throwing/void, wait(), future reads, late addTask on a stopping pool, destruction with queued tasks, yields at the hook points); distinct_nontrivial = distinct logged histories with >= 2 workers or >= 2 callers",
        "samples": ["%s (nw=%d): %s -> %s" % (s["name"], s["nw"], " ".join(traces.get(s["name"], [])[:60]), " ".join(verdicts.get(s["name"], []))) for s in scen[:2]],
        "traces_validated_against_impl": len(traces), "traces_accepted": accepted, "tasks_run": n_tasks,
        "event_kinds": kinds, "max_workers": max(s["nw"] for s in scen),
        "worker_counts": sorted({s["nw"] for s in scen}), "exhaustive": False,
    })
