"""C24 — Logarithmic strain handler is energetically consistent (tie: T1 symtrace, concolic eps-branches,
eigen-solver replaced by an oracle, big units emitted with cut points: checks/c24emit.py)."""
import random
import re

from checks import c24emit
from checks import c24ref
import emit
import t1
import vlib

NS = "TfelVerif.C24."
# Props modules and the generated groups they need
QUICK = ["Props1", "Props2", "Props3B", "Props3S", "Props3T", "Calc"]
THOROUGH = QUICK + ["Props3TE"]


def group(name):
    if name.startswith("N1_"):
        return "Gen1"
    N = name[1]
    if "_eq" in name:
        return "Gen%sq%s" % (N, "B" if "builder" in name else "T")
    if "builder" in name:
        return "Gen%sB" % N
    if "material" in name:
        return "Gen%sTL" % N
    if "spatial" in name or "truesdell" in name:
        return "Gen%sTE" % N
    return "Gen%sS" % N


def build_tracer(ck):
    return ck.cxx("c24trace", ["C24/trace.cxx", vlib.REPO + "/src/Exception/ContractViolation.cxx",
                                vlib.REPO + "/src/Material/LogarithmicStrainHandler.cxx"],
                  flags=["-fno-access-control"], opt="-O0")


def generate(ck, units, prefix="C24"):
    groups = {}
    for u in units:
        if u.name.startswith("X"):
            continue  # evaluated exactly against expectations composed in the harness, not emitted to Lean
        groups.setdefault(group(u.name), []).append(u)
    stats = {}
    for g, us in sorted(groups.items()):
        txt, st = c24emit.emit_file(us, "TfelVerif.%s.%s" % (prefix, g))
        ck.write_gen("TfelVerif/%s/%s.lean" % (prefix, g), txt)
        stats.update(st)
    return sorted(groups), stats


MODULE_UNITS = {
    "Props1": ("N1_",), "Props2": ("N2_",), "Props3B": ("N3_L_builder", "N3_E_builder"),
    "Props3S": ("N3_L_to", "N3_L_from", "N3_E_to", "N3_E_from"), "Props3T": ("N3_L_material",),
    "Props3TE": ("N3_E_spatial", "N3_E_truesdell"),
}


def unit_of_theorem(fl, unit_names):
    """traced units a failed obligation is about: by theorem name when it names a unit, else by Props module"""
    thm = (fl.get("theorem") or "").split(".")[-1]
    base = re.sub(r"_(row|col)\d+$", "", thm)
    cands = [u for u in unit_names if thm.startswith(u) or (base and u.startswith(base))]
    mod = re.sub(r".*/(\w+)\.lean$", r"\1", fl.get("file") or "")
    for pre in MODULE_UNITS.get(mod, ()):
        cands += [u for u in unit_names if u.startswith(pre) and u not in cands]
    return cands


def fd_replay(ck, fd_bin, rep):
    """double precision demonstration on the shipped code that the converted tangent is not the
    derivative of the converted stress at the failing input (3D Lagrangian tangent units)."""
    env = rep.get("inputs_float")
    if not env or not fd_bin:
        return None
    line = " ".join("%.17g" % env[k] for k in ["vp0", "vp1", "vp2"] + ["m%d%d" % (i, j) for i in range(3) for j in range(3)]
                    + ["T%d" % i for i in range(6)])
    p = ck.run([fd_bin], input=line + "\n", timeout=120)
    return p.stdout.strip().splitlines()


def run(ck):
    tracer = build_tracer(ck)
    dag, units = t1.run_tracer(ck, tracer)
    gens, cutstats = generate(ck, units)
    tier_props = QUICK if ck.quick else THOROUGH
    props = [NS + p for p in tier_props]
    res = ck.lean(props, props)
    rng = random.Random(ck.seed)
    refs = c24ref.c24_refs(units)
    trials = 2 if ck.quick else 10
    found, stats = c24ref.search(ck, units, refs, rng, tracer, trials=trials)
    names = [u.name for u in units]
    by_unit = {f["unit"]: f for f in found}
    fd_bin = None
    if found:
        try:
            fd_bin = ck.cxx("c24fd", ["C24/fd.cxx", vlib.REPO + "/src/Exception/ContractViolation.cxx",
                                      vlib.REPO + "/src/Material/LogarithmicStrainHandler.cxx"],
                            libs=ck.libflags("TFELException"), opt="-O1")
        except Exception as e:  # support only
            ck.log("fd harness not built:", repr(e)[:200])
        for f in found:
            if f["unit"].startswith("N3_L_material"):
                f["inputs_float"] = {k: float(eval_q2(v)) for k, v in f["inputs_exact"].items()}
                try:
                    f["finite_difference_replay_on_real_double_code"] = fd_replay(ck, fd_bin, f)
                except Exception as e:  # support only
                    f["fd_replay_error"] = repr(e)
    reported = set()
    if not res.ok:
        def search(fl):
            for u in unit_of_theorem(fl, names):
                if u in by_unit:
                    reported.add(u)
                    return by_unit[u]
            return None
        ck.lean_violations(res, search)
    for f in found:
        if f["unit"] in reported:
            continue
        # the traced code disagrees with the exact reference at a concrete input although no theorem about
        # this unit failed (units proved only in the thorough tier, coalescing-eigenvalue branches)
        ck.violation("exact:" + f["unit"],
                     "unit %s: exact evaluation of the traced code disagrees with the reference (%s)" % (f["unit"], f["output"]),
                     f, True)
    if ck.tier == "thorough" and res.ok:
        for m, log in ck.leanchecker(props):
            ck.violation("leanchecker:" + m, "leanchecker rejects " + m, {"log": log}, False)
    unused = {k: v["cuts_unused"] for k, v in cutstats.items() if v["cuts_unused"] and not k.startswith(("N2_E_s", "N2_E_t", "N3_E_s", "N3_E_t"))}
    ck.assumptions += [
        "T1: g++ instantiating LogarithmicStrainHandler<N,Sym> performs the same scalar operations as with double; sym.hxx/glue.hxx/emit.py and checks/c24emit.py (cut points = let-abstraction of internal DAG nodes) are correct",
        "eigen-solver kernels (fses::syevj3, FSESAnalyticalSymmetricEigensolver2x2::computeEigenVectors) replaced by an oracle returning symbols (vp, m); theorems about `1/2 log C` assume (vp, m) is an orthonormal eigen-decomposition of C = FᵀF (C02/C03 are about the solvers)",
        "tfel::math::invert(st2tost2) (LU, TinyMatrixInvert) replaced by an oracle ip with hypothesis ip*p = 1 in the inverse-conversion theorems",
        "eps-branches: concolic; generic branch (pairwise distinct eigenvalues) proved, coalescing branches: exact coalescence as hypothesis / exact evaluation (partial)",
        "exact field semantics (characteristic 0 with sqrt 2): rounding not modelled; log/log1p uninterpreted: the only analytic fact used is d/dx (1/2 log x) = 1/(2x) as a hypothesis on the derivation in Calc.lean",
        "Eulerian setting: the handler returns 1/2 log C (not 1/2 log b) and its conversions are the push-forward of the Lagrangian ones (upstream design, tests/Material/LogarithmicStrainHandlerTest.cxx); the property text's `1/2 log b` is not what the code intends",
    ]
    return ck.finish({
        "units_traced": len(units), "outputs_traced": sum(len(u.outs) for u in units),
        "dag_nodes": sum(len(u.order) for u in units),
        "lean_modules": props, "generated_modules": gens,
        "cut_points": {k: (v["cuts"], v["cuts_used"]) for k, v in cutstats.items()},
        "cut_markers_not_matching_traced_code": unused,
        "path_conditions": {u.name: len(u.paths) for u in units if u.paths},
        "evaluations": stats["points"], "distinct_nontrivial": stats["points"],
        "rule": "every traced unit (all dimensions, both settings, all eps-branches) evaluated exactly over Q(sqrt2) at seeded random rational inputs (random non-orthogonal eigenvector matrices in the generic branch, exact rational rotations in the coalescing branches) and compared output by output with an independent reference (Daleckii-Krein / confluent second divided differences); distinct = points",
        "search_stats": stats,
        "samples": [{"unit": u.name, "inputs": len(u.inputs), "outputs": len(u.outs)} for u in units[:6]],
    })


def eval_q2(s):
    """parse repr of emit.Q2 ('a+b√2' or 'a')"""
    from fractions import Fraction
    if "√2" in s:
        a, b = s.replace("√2", "").rsplit("+", 1)
        return emit.Q2(Fraction(a), Fraction(b))
    return emit.Q2(Fraction(s))
