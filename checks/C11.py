"""C11 — linear and cubic-spline interpolation reproduce and extend data.

Tie: M.  lean/TfelVerif/C11/Model.lean (findIndex, computeLinearInterpolation(AndDerivative),
lower_bound, local cubic / local integral, computeCubicSplineInterpolation(AndDerivative),
CubicSpline::setCollocationPoints/buildInterpolation/solveTridiagonalLinearSystem/getValue(s)/
computeIntegral/computeMeanValue) runs on Float and must agree bit for bit with the real templates
instantiated with double (harness/C11/harness.cxx) on seeded tables of 1..50 nodes.
On a differing line the property's own predicate is evaluated in exact rational arithmetic
(python Fractions) on the implementation's answer: interpolation of the nodes, affine pieces,
clamp / linear continuation, slopes solving the natural-spline equations, Hermite cubic with the
implementation's slopes, exact integral of the extrapolated interpolant, mean value.

Call shapes exercised besides the plain ones (same model answers expected): ONE CubicSpline object is
reused for every table (setCollocationPoints must forget the previous table); the iterator overload of
setCollocationPoints called directly (raw pointers, deque iterators, empty range); query points of type
int and float for the four free function templates; collocation points built by aggregate
initialisation {x, y, d} in another container; the size tests of the container overload (tabm); the
CubicSplineUninitialised test of every accessor (uninit); null pivots met at the first, at a later and
at the last pivot test of solveTridiagonalLinearSystem."""
import bisect
import math
import random
import struct
from fractions import Fraction

import vlib

PROPS = ["TfelVerif.C11.Props"]
LIN = "include/TFEL/Math/LinearInterpolation.ixx"
SPL = "include/TFEL/Math/CubicSpline.ixx"
SITE = {
    "tab": SPL + ":CubicSpline::setCollocationPoints/buildInterpolation/solveTridiagonalLinearSystem",
    "lin": LIN + ":computeLinearInterpolation",
    "lind": LIN + ":computeLinearInterpolationAndDerivative",
    "spl": SPL + ":computeCubicSplineInterpolation",
    "spld": SPL + ":computeCubicSplineInterpolationAndDerivative",
    "gv": SPL + ":CubicSpline::getValue",
    "gv2": SPL + ":CubicSpline::getValues(f,df,x)",
    "gv3": SPL + ":CubicSpline::getValues(f,df,d2f,x)",
    "int": SPL + ":CubicSpline::computeIntegral",
    "mean": SPL + ":CubicSpline::computeMeanValue",
    "tabm": SPL + ":CubicSpline::setCollocationPoints(const AContainer&, const OContainer&) size tests",
    "uninit": SPL + ":CubicSpline accessors without collocation points (CubicSplineUninitialised)",
}
HXX = "include/TFEL/Math/CubicSpline.hxx"
VARIANT_SITE = {
    "it": " [iterator overload setCollocationPoints(px, pxe, py) called with raw pointers]",
    "dq": " [iterator overload setCollocationPoints(px, pxe, py) called with std::deque iterators]",
    "i": " [query point of type int]",
    "f": " [query point of type float]",
    "agg": " [points built by aggregate initialisation {x, y, d}, layout of CubicSplineCollocationPoint in " + HXX + "]",
}


def base(op):
    return op.split(":")[0]


def site(op):
    b, _, v = op.partition(":")
    return SITE[b] + VARIANT_SITE.get(v, "")


def to_float32(a):
    try:
        return struct.unpack("<f", struct.pack("<f", a))[0]
    except OverflowError:
        return None


def variant_point(rng, op, a):
    """(op with a call-shape variant, query point) : the point is moved to a value exactly representable in the
    type the variant passes to the C++ template"""
    r = rng.random()
    if r < 0.12 and abs(a) < 2.0 ** 30:
        return op + ":i", float(math.floor(a) if rng.random() < 0.5 else math.ceil(a))
    if r < 0.24:
        b = to_float32(a)
        if b is not None and abs(b) != float("inf"):
            return op + ":f", b
    if r < 0.40 and op in ("spl", "spld"):
        return op + ":agg", a
    return op, a
RTOL = Fraction(1, 10 ** 11)  # relative (to the scale of the data) error accepted by the property predicate; used on differing lines only


def hx(x):
    return "%016x" % struct.unpack("<Q", struct.pack("<d", float(x)))[0]


def unhx(s):
    if s == "nan":
        return float("nan")
    return struct.unpack("<d", struct.pack("<Q", int(s, 16)))[0]


def finite(xs):
    return all(x == x and abs(x) != float("inf") for x in xs)


# ---------------------------------------------------------------- exact reference (Fractions)
class Ref:
    """exact piecewise interpolants of a table (X strictly increasing), slopes D for the spline"""

    def __init__(self, X, Y, D=None):
        self.X = [Fraction(v) for v in X]
        self.Y = [Fraction(v) for v in Y]
        self.D = [Fraction(v) for v in D] if D is not None else None
        self.n = len(X)
        n = self.n
        self.span = self.X[-1] - self.X[0]
        self.ymax = max(abs(v) for v in self.Y)
        self.dmax = max(abs(v) for v in self.D) if D is not None else Fraction(0)
        self.slope = [(self.Y[i + 1] - self.Y[i]) / (self.X[i + 1] - self.X[i]) for i in range(n - 1)]
        self.smax = max([abs(s) for s in self.slope] + [Fraction(0)])
        if D is not None and n > 1:
            # monomial coefficients of the cubic Hermite interpolant on each interval, checked against the
            # Hermite conditions p(0)=y_i, p'(0)=d_i, p(h)=y_{i+1}, p'(h)=d_{i+1}
            self.a2 = []
            self.a3 = []
            for i in range(n - 1):
                h = self.X[i + 1] - self.X[i]
                dl = self.slope[i]
                a2 = (3 * dl - 2 * self.D[i] - self.D[i + 1]) / h
                a3 = (self.D[i] + self.D[i + 1] - 2 * dl) / (h * h)
                assert self.Y[i] + h * (self.D[i] + h * (a2 + h * a3)) == self.Y[i + 1]
                assert self.D[i] + h * (2 * a2 + 3 * h * a3) == self.D[i + 1]
                self.a2.append(a2)
                self.a3.append(a3)
            # primitive at the nodes (from X[0])
            self.P = [Fraction(0)]
            for i in range(n - 1):
                h = self.X[i + 1] - self.X[i]
                self.P.append(self.P[-1] + self.piece_primitive(i, h))

    # ---- linear
    def linear(self, a, e):
        """(value, set of admissible derivatives) of the piecewise-linear interpolant at a"""
        X, Y, n = self.X, self.Y, self.n
        a = Fraction(a)
        if n == 1:
            return Y[0], {Fraction(0)}
        if a <= X[0]:
            s = self.slope[0]
            if e:
                return Y[0] + s * (a - X[0]), {s}
            return Y[0], ({Fraction(0), s} if a == X[0] else {Fraction(0)})
        if a >= X[-1]:
            s = self.slope[-1]
            if e:
                return Y[-1] + s * (a - X[-1]), {s}
            return Y[-1], ({Fraction(0), s} if a == X[-1] else {Fraction(0)})
        i = bisect.bisect_left(X, a) - 1          # X[i] < a <= X[i+1]
        ders = {self.slope[i]}
        if a == X[i + 1]:
            ders.add(self.slope[i + 1])
        return Y[i] + self.slope[i] * (a - X[i]), ders

    # ---- spline (Hermite cubic with slopes D)
    def piece(self, i, t):
        """value, derivative, second derivative of piece i at offset t from X[i]"""
        a2, a3 = self.a2[i], self.a3[i]
        return (self.Y[i] + t * (self.D[i] + t * (a2 + t * a3)), self.D[i] + t * (2 * a2 + 3 * t * a3), 2 * a2 + 6 * t * a3)

    def piece_primitive(self, i, t):
        return self.Y[i] * t + self.D[i] * t ** 2 / 2 + self.a2[i] * t ** 3 / 3 + self.a3[i] * t ** 4 / 4

    def spline(self, a, e):
        """(value, admissible first derivatives, admissible second derivatives)"""
        X, Y, D, n = self.X, self.Y, self.D, self.n
        a = Fraction(a)
        Z = Fraction(0)
        if n == 1:
            return Y[0], {Z}, {Z}
        if a <= X[0]:
            if a == X[0]:
                inner = self.piece(0, Z)
                return Y[0], ({D[0]} if e else {Z, D[0]}), {Z, inner[2]}
            return (Y[0] + (a - X[0]) * D[0], {D[0]}, {Z}) if e else (Y[0], {Z}, {Z})
        if a >= X[-1]:
            if a == X[-1]:
                inner = self.piece(n - 2, X[-1] - X[-2])
                return Y[-1], ({D[-1]} if e else {Z, D[-1]}), {Z, inner[2]}
            return (Y[-1] + (a - X[-1]) * D[-1], {D[-1]}, {Z}) if e else (Y[-1], {Z}, {Z})
        i = bisect.bisect_left(X, a) - 1
        v, d1, d2 = self.piece(i, a - X[i])
        s1, s2 = {d1}, {d2}
        if a == X[i + 1]:
            w = self.piece(i + 1, Z)
            s1.add(w[1])
            s2.add(w[2])
        return v, s1, s2

    def primitive(self, t):
        """exact integral of the linearly extrapolated spline from X[0] to t"""
        X, Y, D, n = self.X, self.Y, self.D, self.n
        t = Fraction(t)
        if n == 1:
            return Y[0] * (t - X[0])
        if t <= X[0]:
            u = t - X[0]
            return Y[0] * u + D[0] * u * u / 2
        if t >= X[-1]:
            u = t - X[-1]
            return self.P[-1] + Y[-1] * u + D[-1] * u * u / 2
        i = bisect.bisect_left(X, t) - 1
        return self.P[i] + self.piece_primitive(i, t - X[i])

    def integral(self, a, b):
        return self.primitive(b) - self.primitive(a)

    def natural_residual(self):
        """largest violation of the natural-spline equations (C2 at interior nodes, zero second derivative at
        both ends), relative to the size of the second derivatives involved"""
        n = self.n
        if n == 1:
            return abs(self.D[0])
        worst = Fraction(0)
        left = [self.piece(i, Fraction(0))[2] for i in range(n - 1)]
        right = [self.piece(i, self.X[i + 1] - self.X[i])[2] for i in range(n - 1)]
        scale = max([abs(v) for v in left + right] + [self.smax / min(self.X[i + 1] - self.X[i] for i in range(n - 1))])
        if scale == 0:
            return Fraction(0)
        worst = max(abs(left[0]), abs(right[-1]))
        for i in range(1, n - 1):
            worst = max(worst, abs(right[i - 1] - left[i]))
        return worst / scale


# ---------------------------------------------------------------- generators
def gen_table(rng, n):
    kind = rng.choice(["int", "int", "dyadic", "dyadic", "rational", "gauss", "uniform", "wide", "decimal", "scaled"])
    if kind == "int":
        x0 = rng.randint(-5, 5)
        X = [float(x0)]
        for _ in range(n - 1):
            X.append(X[-1] + rng.randint(1, 4))
        Y = [float(rng.randint(-9, 9)) for _ in range(n)]
    elif kind == "dyadic":
        X = [rng.randint(-64, 64) / 16.0]
        for _ in range(n - 1):
            X.append(X[-1] + rng.randint(1, 64) / 16.0)
        Y = [rng.randint(-128, 128) / 8.0 for _ in range(n)]
    elif kind == "rational":
        X = [rng.randint(-9, 9) / rng.randint(1, 9)]
        for _ in range(n - 1):
            X.append(X[-1] + rng.randint(1, 9) / rng.randint(1, 9))
        Y = [rng.randint(-20, 20) / rng.randint(1, 7) for _ in range(n)]
    elif kind == "gauss":
        X = [rng.gauss(0, 1)]
        for _ in range(n - 1):
            X.append(X[-1] + 0.01 + abs(rng.gauss(0, 1)))
        Y = [rng.gauss(0, 3) for _ in range(n)]
    elif kind == "uniform":
        x0 = rng.choice([0.0, -1.0, 273.15, 1e-3])
        h = rng.choice([1.0, 0.5, 0.1, 25.0, 1e-2])
        X = [x0 + i * h for i in range(n)]
        Y = [rng.choice([1.0, -1.0, 0.5]) * (i % rng.randint(2, 5)) + rng.randint(-3, 3) for i in range(n)]
    elif kind == "scaled":
        # the same kind of table in very small / very large units (the pivot threshold of the solver is absolute)
        sc = 10.0 ** rng.randint(-30, 60)
        k = rng.randint(-8, 8)
        X = [k * sc]
        for _ in range(n - 1):
            k += rng.randint(1, 6)
            X.append(k * sc)
        ys = 10.0 ** rng.randint(-3, 3)
        Y = [rng.gauss(0, 1) * ys for _ in range(n)]
    elif kind == "wide":
        X = [rng.randint(-8, 8) / 4.0]
        for _ in range(n - 1):
            X.append(X[-1] + 2.0 ** rng.randint(-6, 3))
        Y = [rng.gauss(0, 1) * 10.0 ** rng.randint(-3, 3) for _ in range(n)]
    else:  # decimal : a material property table (temperatures, values with a few digits)
        X = [float(rng.choice([0, 20, 273, 293, 300]))]
        for _ in range(n - 1):
            X.append(round(X[-1] + rng.choice([10, 25, 50, 100, 12.5, 0.1]), 6))
        y = rng.choice([1.0, 210e9, 1e-5, 50.0])
        Y = []
        for _ in range(n):
            y = y * (1 + rng.randint(-50, 50) / 1000.0)
            Y.append(float("%.6g" % y))
    # strictly increasing in double (sums may stagnate for large magnitudes) : guaranteed by construction here
    for i in range(n - 1):
        assert X[i] < X[i + 1]
    return kind, X, Y


def gen_point(rng, X):
    """(class, abscissa) of a query point"""
    n = len(X)
    span = (X[-1] - X[0]) if n > 1 else 1.0
    c = rng.choice(["node", "node", "between", "between", "between", "mid", "left", "right", "first", "last",
                    "far", "near-node"])
    if c == "node":
        return c, X[rng.randrange(n)]
    if c == "first":
        return c, X[0]
    if c == "last":
        return c, X[-1]
    if c == "left":
        return c, X[0] - rng.choice([0.25, 1.0, 3.5, rng.random() * span])
    if c == "right":
        return c, X[-1] + rng.choice([0.25, 1.0, 3.5, rng.random() * span])
    if c == "far":
        return c, rng.choice([X[0] - 10 * span - 7, X[-1] + 10 * span + 7])
    if c == "near-node":
        v = X[rng.randrange(n)]
        return c, math.nextafter(v, rng.choice([-math.inf, math.inf]))
    if n == 1:
        return "between", X[0] + rng.choice([-1.5, 0.75])
    i = rng.randrange(n - 1)
    if c == "mid":
        return c, 0.5 * (X[i] + X[i + 1])
    return c, X[i] + rng.random() * (X[i + 1] - X[i])


def where(X, a):
    """branch taken for an abscissa: n1 / left / right / node / inside (with respect to lower_bound)"""
    n = len(X)
    if n == 1:
        return "n1"
    k = bisect.bisect_left(X, a)
    if k == 0:
        return "at-first" if a == X[0] else "left"
    if k == n:
        return "right"
    if a == X[k]:
        return "at-last" if k == n - 1 else "at-node"
    return "inside"


def int_branch(X, a, b):
    n = len(X)
    if n == 1:
        return "n1"
    sw = "swap:" if b < a else ""
    lo, hi = min(a, b), max(a, b)
    ia = bisect.bisect_left(X, lo)
    ib = bisect.bisect_left(X, hi)
    if ia == ib:
        return sw + ("same:left" if ib == 0 else "same:right" if ib == n else "same:piece")
    return sw + "%s+%s+%s" % ("extrap" if ia == 0 else "partial", "full" if ib - 1 - ia > 0 else "nofull",
                              "extrap" if ib == n else "partial")


class Table:
    def __init__(self, kind, X, Y, D=None):
        self.kind, self.X, self.Y, self.Dgiven = kind, X, Y, D
        self.tabop = "tab"     # or tab:it / tab:dq (iterator overload called directly)
        self.n = len(X)
        self.line = None
        self.queries = []      # (op, args tuple, line, branch)

    def header(self):
        if self.kind == "mismatched":
            return "tabm %d %d %s" % (len(self.X), len(self.Y), " ".join(hx(v) for v in self.X + self.Y))
        if self.Dgiven is None:
            return "%s %d %s" % (self.tabop, self.n, " ".join(hx(v) for v in self.X + self.Y))
        return "tabd %d %s" % (self.n, " ".join(hx(v) for v in self.X + self.Y + self.Dgiven))


def add_queries(rng, t, nq, ordered=True):
    X = t.X
    for _ in range(nq):
        op = rng.choice(["lin", "lind", "spl", "spld", "gv", "gv2", "gv3", "int", "int", "int", "mean"])
        if op in ("lin", "lind", "spl", "spld"):
            e = rng.randint(0, 1)
            c, a = gen_point(rng, X)
            op, a = variant_point(rng, op, a)
            t.queries.append((op, (e, a), "%s %d %s" % (op, e, hx(a)), "%s:e%d:%s" % (op, e, where(X, a))))
        elif op in ("gv", "gv2", "gv3"):
            c, a = gen_point(rng, X)
            t.queries.append((op, (a,), "%s %s" % (op, hx(a)), "%s:%s" % (op, where(X, a))))
        else:
            _, a = gen_point(rng, X)
            _, b = gen_point(rng, X)
            r = rng.random()
            if r < 0.05 and op == "int":
                b = a
            t.queries.append((op, (a, b), "%s %s %s" % (op, hx(a), hx(b)), "%s:%s" % (op, int_branch(X, a, b))))


def systematic_table(X, Y, D=None):
    """small table queried at every node, every midpoint, outside, and integrated over every pair of those"""
    t = Table("systematic", X, Y, D)
    pts = []
    for i, v in enumerate(X):
        pts.append(v)
        if i + 1 < len(X):
            pts.append(0.5 * (v + X[i + 1]))
            pts.append(v + 0.25 * (X[i + 1] - v))
    pts += [X[0] - 1.0, X[0] - 2.5, X[-1] + 0.5, X[-1] + 3.0]
    for a in pts:
        for e in (0, 1):
            for op in ("lin", "lind", "spl", "spld"):
                t.queries.append((op, (e, a), "%s %d %s" % (op, e, hx(a)), "%s:e%d:%s" % (op, e, where(X, a))))
                vs = [":agg"] if op in ("spl", "spld") else []
                if to_float32(a) == a:
                    vs.append(":f")
                if a == math.floor(a):
                    vs.append(":i")
                for v in vs:
                    t.queries.append((op + v, (e, a), "%s %d %s" % (op + v, e, hx(a)), "%s:e%d:%s" % (op + v, e, where(X, a))))
        for op in ("gv", "gv2", "gv3"):
            t.queries.append((op, (a,), "%s %s" % (op, hx(a)), "%s:%s" % (op, where(X, a))))
    for a in pts:
        for b in pts:
            t.queries.append(("int", (a, b), "int %s %s" % (hx(a), hx(b)), "int:" + int_branch(X, a, b)))
            if a != b:
                t.queries.append(("mean", (a, b), "mean %s %s" % (hx(a), hx(b)), "mean:" + int_branch(X, a, b)))
    return t


def bad_table(rng, n):
    """abscissae that are not strictly increasing (a repeated or a decreasing pair)"""
    _, X, Y = gen_table(rng, n)
    i = rng.randrange(n - 1)
    if rng.random() < 0.5:
        X[i + 1] = X[i]
    else:
        X[i], X[i + 1] = X[i + 1], X[i]
    t = Table("unordered", X, Y)
    t.tabop = rng.choice(["tab", "tab:it", "tab:dq"])
    return t


# ---------------------------------------------------------------- the property, evaluated on an answer
def close(u, v, scale):
    return abs(Fraction(u) - v) <= RTOL * scale


def judge_tab(t, impl):
    """does the answer of setCollocationPoints satisfy the property ?  (holds, reason)"""
    strictly = all(t.X[i] < t.X[i + 1] for i in range(t.n - 1))
    if t.kind == "mismatched":
        return None, ("abscissa and ordinate containers of different sizes (%d, %d): outside the property's domain; the "
                      "answer is not the documented rejection" % (len(t.X), len(t.Y)))
    if t.n == 0 or not strictly:
        if impl.startswith("ok"):
            return None, "a table outside the property's domain (empty or not strictly increasing) is accepted"
        return True, ""
    if t.kind == "huge-span":
        if impl.startswith("ok"):
            try:
                d = [unhx(s) for s in impl.split()[1:]]
            except (ValueError, struct.error):
                d = []
            if len(d) != t.n or not finite(d):
                return False, ("a pivot below 100*DBL_MIN is divided by instead of being reported (CubicSplineNullPivot): "
                               "the spline is built with missing or non-finite slopes, it does not return the tabulated values")
        return None, "intervals longer than 1/(100*DBL_MIN): outside the floating-point range where the construction is expected to succeed"
    if not impl.startswith("ok"):
        return False, "construction of the spline fails (%s) on a strictly increasing table" % impl
    try:
        d = [unhx(s) for s in impl.split()[1:]]
    except (ValueError, struct.error):
        d = []
    if len(d) != t.n:
        return False, ("after setCollocationPoints on a %d-node table getCollocationPoints returns %d points (the spline "
                       "does not interpolate the table that was given)" % (t.n, len(d)))
    if not finite(d):
        return False, "slopes are not finite"
    res = Ref(t.X, t.Y, d).natural_residual()
    if res > RTOL:
        return False, ("the slopes do not solve the natural-spline equations (C2 continuity at interior nodes, zero second "
                       "derivative at both ends): relative residual %.3g" % float(res))
    return True, ""


def judge_query(t, D, op, args, impl):
    """(holds, reason) for a query line, given the implementation's slopes D (already judged)"""
    op = base(op)
    f = impl.split()
    try:
        vals = [unhx(s) for s in f]
    except (ValueError, struct.error):
        return False, "no value returned (%s)" % impl[:40]
    if not vals or not finite(vals):
        if op == "mean" and args[0] == args[1]:
            return True, ""
        return False, "non-finite value returned (%s)" % impl[:60]
    if op in ("lin", "lind"):
        ref = Ref(t.X, t.Y)
        e, a = args
        v, ders = ref.linear(a, e)
        scale = ref.ymax + ref.smax * (ref.span + abs(Fraction(a) - ref.X[0]) + abs(Fraction(a) - ref.X[-1]))
        if len(vals) != (1 if op == "lin" else 2):
            return False, "wrong number of outputs"
        if not close(vals[0], v, scale):
            return False, ("linear interpolant at a=%r (extrapolate=%d): returned %r, the piecewise-linear function through "
                           "the data%s gives %r" % (a, e, vals[0], " (affine continuation)" if e else " (clamped)", float(v)))
        if op == "lind" and not any(close(vals[1], d, ref.smax) for d in ders):
            return False, ("returned derivative %r at a=%r (extrapolate=%d) is not the slope of the piece used (%s)"
                           % (vals[1], a, e, ", ".join(repr(float(d)) for d in sorted(ders))))
        return True, ""
    ref = Ref(t.X, t.Y, D)
    if op in ("spl", "spld", "gv", "gv2", "gv3"):
        if op in ("spl", "spld"):
            e, a = args
        else:
            e, a = 1, args[0]
        v, d1, d2 = ref.spline(a, e)
        dist = abs(Fraction(a) - ref.X[0]) + abs(Fraction(a) - ref.X[-1]) + ref.span
        scale = ref.ymax + (ref.dmax + ref.smax) * dist
        nout = {"spl": 1, "spld": 2, "gv": 2, "gv2": 2, "gv3": 3}[op]
        if len(vals) != nout:
            return False, "wrong number of outputs"
        if not close(vals[0], v, scale) or (op == "gv" and not close(vals[1], v, scale)):
            node = Fraction(a) in ref.X
            return False, ("spline at x=%r (extrapolate=%d): returned %r, the cubic Hermite interpolant with the "
                           "implementation's own slopes gives %r%s" % (a, e, vals[0], float(v), " (x is a node: tabulated value)" if node else ""))
        if op in ("spld", "gv2", "gv3"):
            hmin = min([ref.X[i + 1] - ref.X[i] for i in range(ref.n - 1)] + [Fraction(1)])
            if not any(close(vals[1], d, ref.dmax + ref.smax) for d in d1):
                return False, ("returned derivative %r at x=%r (extrapolate=%d) is not the derivative of the interpolant (%s)"
                               % (vals[1], a, e, ", ".join(repr(float(d)) for d in sorted(d1))))
            if op == "gv3" and not any(close(vals[2], d, (ref.dmax + ref.smax) / hmin) for d in d2):
                return False, ("returned second derivative %r at x=%r is not the second derivative of the interpolant (%s)"
                               % (vals[2], a, ", ".join(repr(float(d)) for d in sorted(d2))))
        return True, ""
    a, b = args
    fa, fb = Fraction(a), Fraction(b)
    reach = abs(fa - ref.X[0]) + abs(fb - ref.X[0]) + abs(fa - ref.X[-1]) + abs(fb - ref.X[-1]) + ref.span
    vscale = ref.ymax + (ref.dmax + ref.smax) * reach
    exact = ref.integral(a, b)
    if op == "int":
        if not close(vals[0], exact, vscale * reach):
            return False, ("computeIntegral(%r, %r) = %r but the exact integral of the (linearly extrapolated) interpolant "
                           "with the implementation's own slopes is %r" % (a, b, vals[0], float(exact)))
        return True, ""
    if fa == fb:
        return True, ""
    # the quotient is ill-conditioned when |b-a| is tiny: compare I = m * (b - a)
    if not close(Fraction(vals[0]) * (fb - fa), exact, vscale * reach):
        return False, ("computeMeanValue(%r, %r) = %r is not integral/(b-a) = %r" % (a, b, vals[0], float(exact / (fb - fa))))
    return True, ""



def tab_op(t):
    return "tabm" if t.kind == "mismatched" else t.tabop


def run_implementation(ck, harness, lines, index):
    """run the harness on all request lines; when it aborts (sanitizer, uncaught exception) the request being
    processed is recorded as a crash and the run resumes after it (the current table is re-installed first)"""
    answers = ["skipped"] * len(lines)
    crashes = []
    start = 0
    prefix = []
    for _ in range(8):
        feed = prefix + lines[start:]
        p = ck.run([harness], input="".join(l + "\n" for l in feed), timeout=3000)
        out = p.stdout.splitlines()[len(prefix):]
        for j, a in enumerate(out[:len(lines) - start]):
            answers[start + j] = a
        k = start + len(out)
        if k >= len(lines):
            break
        answers[k] = "crash"
        crashes.append((k, p.stderr[-2500:]))
        if index[k][1] is None:
            # the table could not even be installed : skip its queries
            k += 1
            while k < len(lines) and index[k][1] is not None:
                k += 1
            start, prefix = k, []
        else:
            start = k + 1
            prefix = [index[k][0].header()] if start < len(lines) and index[start][1] is not None else []
        if start >= len(lines):
            break
    return answers, crashes


def run(ck):
    rng = random.Random(ck.seed)
    harness = ck.cxx("c11h", ["C11/harness.cxx", vlib.REPO + "/src/Math/CubicSpline.cxx",
                              vlib.REPO + "/src/Math/MathException.cxx",
                              vlib.REPO + "/src/Exception/TFELException.cxx",
                              vlib.REPO + "/src/Exception/ContractViolation.cxx"], sanitize=True)
    driver = ck.lean_exe("c11driver", "TfelVerif/C11/Driver.lean")
    res = ck.lean(PROPS, PROPS)
    ck.lean_violations(res)
    if ck.tier == "thorough" and res.ok:
        for m, log in ck.leanchecker(PROPS):
            ck.violation("leanchecker:" + m, "leanchecker rejects " + m, {"log": log}, False)

    # ---- corpus: systematic small tables, then seeded tables of every size 1..50
    tables = []
    t0 = Table("empty", [], [])
    t0.queries.append(("uninit", (), "uninit", "uninit"))
    tables.append(t0)
    t0 = Table("empty", [], [])
    t0.tabop = "tab:it"                     # the iterator overload on an empty range
    tables.append(t0)
    t0 = Table("empty", [], [])
    t0.tabop = "tab:dq"
    tables.append(t0)
    # container overload with vectors of different sizes (rejected before anything is read)
    for nx, ny in ((0, 0), (0, 2), (2, 0), (1, 0), (3, 2), (2, 3), (1, 2), (5, 1), (7, 6)):
        if nx == ny:
            continue
        tables.append(Table("mismatched", [float(i) for i in range(nx)], [1.0 + 0.5 * i for i in range(ny)]))
    tables.append(systematic_table([1.0], [2.0]))
    tables.append(systematic_table([0.0, 1.0], [1.0, 3.0]))
    tables.append(systematic_table([0.0, 1.0, 2.0], [1.0, 2.0, 4.0]))           # the example of the documentation
    tables.append(systematic_table([-1.0, 0.5, 1.0, 3.0], [2.0, -1.0, 0.25, 0.25]))
    tables.append(systematic_table([0.0, 1.0, 3.0], [0.0, 1.0, -2.0], [0.5, -1.0, 2.0]))   # arbitrary slopes
    tables.append(systematic_table([0.0, 2.0, 3.0, 7.0, 7.5], [1.0, 1.0, 1.0, 1.0, 1.0]))  # constant data
    tables.append(systematic_table([0.0, 1.0, 2.0, 4.0, 5.0], [1.0, 3.0, 5.0, 9.0, 11.0]))  # affine data
    # intervals so long that the pivots fall under 100*DBL_MIN : the CubicSplineNullPivot branch
    tables.append(Table("huge-span", [-8e307, 8e307], [1.0, 2.0]))
    tables.append(Table("huge-span", [-8e307, 0.0, 8e307], [1.0, 2.0, 0.0]))
    # ... met only at a later test of the forward sweep / only at the test of the last pivot after the sweep
    tables.append(Table("huge-span", [0.0, 1.0, 1e308, 1.7e308], [1.0, 2.0, 0.0, 1.0]))
    tables.append(Table("huge-span", [0.0, 1.0, 2.0, 1.6e308], [1.0, 2.0, 0.0, 1.0]))
    tables.append(Table("huge-span", [0.0, 1.0, 2.0, 3.0, 1.6e308], [1.0, -2.0, 0.5, 1.0, 3.0]))
    # the same object now holds a failed construction: the next tables must not see it
    t0 = systematic_table([0.5, 1.0, 2.5], [1.0, -1.0, 2.0])
    t0.tabop = "tab:it"
    tables.append(t0)
    t0 = systematic_table([-2.0, -1.0], [3.0, 1.0])
    t0.tabop = "tab:dq"
    tables.append(t0)
    reps = 1 if ck.quick else 8
    nq = 40 if ck.quick else 120
    # tables in very small / very large units on every run (the solver's pivot threshold is absolute)
    for sc in (1e-25, 1e18, 1e55):
        ks = sorted(rng.sample(range(-10, 30), rng.randint(3, 9)))
        t = Table("scaled", [k * sc for k in ks], [rng.gauss(0, 1) * 10.0 ** rng.randint(-3, 3) for _ in ks])
        t.tabop = rng.choice(["tab", "tab:it", "tab:dq"])
        add_queries(rng, t, nq // 2)
        tables.append(t)
    sizes = list(range(1, 51)) * reps
    for n in sizes:
        kind, X, Y = gen_table(rng, n)
        t = Table(kind, X, Y)
        t.tabop = rng.choice(["tab", "tab", "tab:it", "tab:dq"])
        add_queries(rng, t, nq)
        tables.append(t)
        if rng.random() < 0.08:
            ny = rng.choice([k for k in (0, 1, n - 1, n + 1, n + 3) if k >= 0 and k != n])
            tables.append(Table("mismatched", X, [float(rng.randint(-9, 9)) for _ in range(ny)]))
        if rng.random() < 0.35:
            D = [rng.randint(-16, 16) / 4.0 if rng.random() < 0.7 else rng.gauss(0, 2) for _ in range(n)]
            t2 = Table(kind + "+slopes", X, Y, D)
            add_queries(rng, t2, nq // 2)
            tables.append(t2)
        if n > 1 and rng.random() < 0.2:
            t3 = bad_table(rng, n)
            tables.append(t3)
    lines = []
    index = []          # (table, query or None)
    for t in tables:
        lines.append(t.header())
        index.append((t, None))
        for q in t.queries:
            lines.append(q[2])
            index.append((t, q))
    text = "".join(l + "\n" for l in lines)
    impl, crashes = run_implementation(ck, harness, lines, index)
    pm = ck.run([driver], input=text, timeout=3000)
    if pm.returncode != 0:
        ck.violation("driver-crash", "the model driver aborted", {"stderr": pm.stderr[-2000:]}, False)
    model = pm.stdout.splitlines()
    crash_keys = set()
    for (k, err) in crashes:
        t, q = index[k]
        op = tab_op(t) if q is None else q[0]
        if op in crash_keys:
            continue
        crash_keys.add(op)
        strictly = all(t.X[j] < t.X[j + 1] for j in range(t.n - 1))
        kind = "unknown"
        for w in ("heap-buffer-overflow", "stack-buffer-overflow", "SEGV", "runtime error", "terminate called", "Assertion"):
            if w in err:
                kind = w
                break
        ck.violation("%s:crash" % site(op),
                     "%s on a %d-node %s table: the implementation crashes (%s) instead of returning a value" % (op, t.n, t.kind, kind),
                     {"function": op, "site": site(op), "n": t.n, "table_kind": t.kind, "abscissae": t.X, "values": t.Y,
                      "slopes_given": t.Dgiven, "request_lines": [t.header()] + ([q[2]] if q else []),
                      "arguments": list(q[1]) if q else None, "model": model[k][:300] if k < len(model) else "?",
                      "stderr": err, "table_strictly_increasing": strictly,
                      "how_to_replay": "feed request_lines to the harness built from harness/C11/harness.cxx (doubles as IEEE-754 hex)"},
                     strictly and t.n > 0 and t.kind != "mismatched")

    branches = {}
    kinds = {}
    sizes_seen = {}
    build_outcomes = {}
    disagreements = 0
    reported = set()
    slopes = {}         # id(table) -> implementation slopes (floats) or None
    nan_lines = 0
    skipped_lines = 0
    tab_differs = set()
    downstream = 0
    for i, (t, q) in enumerate(index):
        a = impl[i] if i < len(impl) else "missing"
        m = model[i] if i < len(model) else "missing"
        if q is None:
            kinds[t.kind] = kinds.get(t.kind, 0) + 1
            sizes_seen[t.n] = sizes_seen.get(t.n, 0) + 1
            o = m.split()[0] if m else "?"
            build_outcomes[o] = build_outcomes.get(o, 0) + 1
            if t.Dgiven is not None:
                slopes[id(t)] = t.Dgiven
            elif a.startswith("ok"):
                try:
                    slopes[id(t)] = [unhx(s) for s in a.split()[1:]]
                except (ValueError, struct.error):
                    slopes[id(t)] = None
            else:
                slopes[id(t)] = None
            br = tab_op(t) + ":" + o
        else:
            br = q[3]
        branches[br] = branches.get(br, 0) + 1
        if "nan" in m:
            nan_lines += 1
        if a == m:
            continue
        if a in ("crash", "skipped"):
            skipped_lines += 1
            continue
        disagreements += 1
        op = tab_op(t) if q is None else q[0]
        if q is None:
            holds, why = judge_tab(t, a)
        else:
            D = slopes.get(id(t))
            strictly = all(t.X[k] < t.X[k + 1] for k in range(t.n - 1))
            if op == "uninit":
                holds, why = None, ("an accessor of a CubicSpline without collocation points does not raise "
                                    "CubicSplineUninitialised (outside the property's domain: no table)")
            elif not strictly:
                holds, why = None, "table outside the property's domain"
            elif base(op) in ("lin", "lind"):
                holds, why = judge_query(t, None, op, q[1], a)
            elif D is None or len(D) != t.n or not finite(D):
                holds, why = None, "no usable slopes for this table (see the violation reported for its construction)"
            else:
                holds, why = judge_query(t, D, op, q[1], a)
        if q is None:
            tab_differs.add(id(t))
        elif id(t) in tab_differs and holds is not False and base(op) not in ("lin", "lind"):
            # the slopes of this table already differ from the model's (reported above): a query that still is
            # the Hermite interpolant / exact integral for the implementation's own slopes is not a new finding
            downstream += 1
            continue
        cls = "property" if holds is False else "value"
        key = "%s:%s" % (site(op), cls)
        if key in reported:
            continue
        reported.add(key)
        rep = {"function": op, "site": site(op), "n": t.n, "table_kind": t.kind, "abscissae": t.X, "values": t.Y,
               "slopes_given": t.Dgiven, "implementation_slopes": slopes.get(id(t)),
               "request_lines": [t.header()] + ([q[2]] if q else []),
               "arguments": list(q[1]) if q else None, "branch": br,
               "implementation": a[:3000], "model": m[:3000],
               "property_holds_on_implementation_output": holds, "reason": why,
               "how_to_replay": "feed request_lines to the harness built from harness/C11/harness.cxx (doubles as IEEE-754 hex)"}
        if holds is False:
            ck.violation(key, "%s on a %d-node %s table: %s" % (op, t.n, t.kind, why), rep, True)
        else:
            ck.violation("corr:" + key, "correspondence Model.lean vs %s broken (%d-node %s table, branch %s)%s" % (
                site(op), t.n, t.kind, br, "; the implementation's answer still satisfies the property" if holds else "; " + why), rep, False)
    if len(model) != len(lines):
        ck.violation("corr:line-count", "the model driver answered %d lines for %d requests" % (len(model), len(lines)),
                     {"model_lines": len(model), "requests": len(lines)}, False)
    ck.assumptions += [
        "M: Model.lean is tied to the C++ templates by differential execution on double, compared bit for bit (slopes, values, first and second derivatives, integrals, mean values, error kinds)",
        "floating point: the theorems are about the algorithms over a linearly ordered field; rounding errors are not modelled",
        "NaN is not modelled (comparisons `a <= b` are read as `not (b < a)`); the check generates finite data only",
        "the repeated pivot tests of solveTridiagonalLinearSystem are modelled as one test per pivot (same outcome); the recursion computeIntegral(xb, xa) for swapped bounds is unfolded once",
        "derivative / integral statements are formal (polynomial identities per piece: Taylor expansion with explicit remainder), not statements about real analysis",
    ]
    samples = []
    for i in (1, len(lines) // 3, len(lines) // 2, len(lines) - 1):
        t, q = index[i]
        samples.append("%s [n=%d %s] -> impl '%s' model '%s'" % (
            (q[2] if q else "tab %d ..." % t.n)[:60], t.n, t.kind, (impl[i] if i < len(impl) else "?")[:52], (model[i] if i < len(model) else "?")[:52]))
    return ck.finish({
        "evaluations": len(lines), "distinct_nontrivial": len(branches),
        "rule": "requests = 10 systematic small tables (every node / midpoint / quarter point / outside point x every entry point, integrals over every pair) + seeded tables of every size 1..50 (kinds: integer, dyadic, rational, gaussian, uniform, wide-scale, decimal, scaled by 1e-30..1e60; a third re-installed with arbitrary slopes; some made non-increasing) x queries at nodes / between / midpoints / outside / far / first / last / one ulp from a node, extrapolation on and off; call shapes: container / iterator (pointer, deque) overloads on one reused CubicSpline object, query points of type double / int / float, points built by aggregate initialisation, mismatched container sizes, accessors of an empty spline; distinct = (entry point, extrapolate flag, branch of the search or shape of the integration range) classes observed",
        "exhaustive": False, "disagreements": disagreements, "tables": len(tables),
        "traces_validated_against_impl": len(lines),
        "branch_histogram": branches, "table_kind_histogram": kinds, "table_size_histogram": sizes_seen,
        "build_outcome_histogram": build_outcomes, "nan_answers": nan_lines,
        "implementation_crashes": len(crashes), "lines_not_compared_after_crash": skipped_lines,
        "differing_lines_explained_by_reported_slopes": downstream,
        "samples": samples,
    })
