"""C30 — child-process exit status is reported faithfully under any schedule (tie: M + hooks).

The real ProcessManager.cxx / SignalManager.cxx run commands with a known termination (exit n /
signal) from 1..16 threads; waitpid is interposed in the harness (kernel answers logged, seeded
delay between the running-state test of wait() and its waitpid, optional pre-load of wait()'s
uninitialised `status`).  Each job's logged history must be accepted by the Lean transition
system `fixed` (for which "wait() returned => record = decode(true status)" is proved for every
interleaving) and the outcome of execute() must be the one the child's termination requires.
"""
import os
import random
import shutil
from concurrent.futures import ThreadPoolExecutor

import vlib

PROPS = ["TfelVerif.C30.Props"]
SRC = "src/System/ProcessManager.cxx"
HOOK = os.path.join(vlib.VERIF, "patches", "C30-hook-ProcessManager.cxx.diff")


def hooked_source(ck):
    src = os.path.join(vlib.REPO, SRC)
    if "TFEL_VERIF_HOOKS" in open(src).read():
        return src, "hooks present in the tree"
    dst = ck.path("ProcessManager.cxx")
    shutil.copyfile(src, dst)
    p = vlib.sh(["patch", "-s", "-F3", "--no-backup-if-mismatch", dst, HOOK])
    if p.returncode != 0 or "TFEL_VERIF_HOOKS" not in open(dst).read():
        raise vlib.BuildError("the C30 hook patch no longer applies to %s" % SRC, p.stdout + p.stderr)
    return dst, "hooks applied to a temporary copy of the current file (patches/C30-hook-ProcessManager.cxx.diff)"


def raw(status):
    """what setProcessExitStatus sees in an int status"""
    status &= 0xFFFFFFFF
    if os.WIFEXITED(status):
        return "e%d" % os.WEXITSTATUS(status)
    if os.WIFSIGNALED(status):
        return "s%d" % os.WTERMSIG(status)
    if os.WIFSTOPPED(status):
        return "t"
    return "u"


def expected(truth):
    if truth == "e0":
        return "ok"
    return "abn:%s" % truth[1:] if truth[0] == "e" else "sig"


def gen_plans(rng, nthreads, per_thread, cs_choices=(0, 0, 300, 3000)):
    lines, truths = [], {}
    for k in range(nthreads):
        for i in range(per_thread):
            u = rng.random()
            if u < 0.35:
                kind, n = "e", 0
            elif u < 0.70:
                kind, n = "e", rng.choice([1, 2, 3, 127, 255, rng.randint(1, 255)])
            else:
                kind, n = "s", rng.choice([9, 15, 2, 10, 14])
            cs = rng.choice(cs_choices)
            dm = rng.choices("nsrz", weights=[30, 20, 30, 20])[0]
            delay = {"n": 0, "s": rng.randint(0, 3000), "r": 2000000, "z": 2000000}[dm]
            poison = "-" if rng.random() < 0.5 else str(rng.choice([0, 768, 9, 127, 255, 65535, 256]))
            lines.append("%d %d %s %d %d %s %d %s" % (k, i, kind, n, cs, dm, delay, poison))
            truths[(k, i)] = ("%s%d" % (kind, n), lines[-1])
    return "\n".join(lines) + "\n", truths


def project(log_lines, truths):
    """per job: token list for the model driver + bookkeeping; see harness.cxx for the log syntax"""
    ev = [l.split() for l in log_lines if l.strip()]
    fpos = {}     # pid -> list of (position, job)
    for x, f in enumerate(ev):
        if f[0] == "F":
            fpos.setdefault(int(f[3]), []).append((x, (int(f[1]), int(f[2]))))

    def job_of(pid, x):
        c = fpos.get(pid)
        if not c:
            return None
        before = [j for (px, j) in c if px <= x]
        return before[-1] if before else c[0][1]

    jobs = {j: {"items": [], "start": None, "end": None, "pid": None} for j in truths}
    inside_at = []
    inside = False
    for x, f in enumerate(ev):
        inside_at.append(inside)
        if f[0] == "E":
            inside = True
        elif f[0] == "L":
            inside = False
    for x, f in enumerate(ev):
        j = None
        if f[0] in ("F", "W", "D"):
            j = (int(f[1]), int(f[2]))
        elif f[0] in ("H", "Sh", "Sw"):
            j = job_of(int(f[1]), x)
        if j is None or j not in jobs:
            continue
        J = jobs[j]
        if J["start"] is None:
            J["start"] = x
        if f[0] == "F":
            J["pid"] = int(f[3])
        if f[0] == "D":
            J["end"] = x
            J["outcome"] = f[3]
    out = {}
    for j, J in jobs.items():
        if J["start"] is None or J["end"] is None:
            out[j] = None
            continue
        pid = J["pid"]
        items = []
        if inside_at[J["start"]]:
            items.append(("E",))
        for x in range(J["start"], J["end"]):
            f = ev[x]
            if f[0] in ("E", "L"):
                items.append((f[0],))
            elif f[0] == "W" and (int(f[1]), int(f[2])) == j:
                items.append(("W", f[4], int(f[5])))
            elif f[0] in ("H", "Sh", "Sw") and int(f[1]) == pid and job_of(pid, x) == j:
                items.append((f[0], f[2], int(f[3])) if f[0] == "H" else (f[0], int(f[2])))
        # handler invocations that did not touch this child (other managers' handlers, E directly
        # followed by L) are no-ops of the model: dropped to keep histories readable
        comp = []
        for it in items:
            if it[0] == "L" and comp and comp[-1][0] == "E":
                comp.pop()
            else:
                comp.append(it)
        items = comp
        # an ECHILD answer is only possible after the reap: move a late-logged `W r` before it
        wr = [x for x, it in enumerate(items) if it[0] == "W" and it[1] == "r"]
        hc = [x for x, it in enumerate(items) if it[0] == "H" and it[1] == "c"]
        moved = False
        if wr and hc and hc[0] < wr[0]:
            it = items.pop(wr[0])
            items.insert(hc[0], it)
            moved = True
        toks, notes = [], []
        has_w = any(it[0] == "W" for it in items)
        pending_t1 = has_w
        reaped = False
        last_w = None
        last_hr = None
        for it in items:
            if pending_t1 and it[0] != "E":
                toks.append("T1")
                pending_t1 = False
            if it[0] in ("E", "L"):
                toks.append(it[0])
            elif it[0] == "W":
                if it[1] == "r":
                    if not reaped:
                        toks.append("X")
                        reaped = True
                    toks.append("Wr")
                    if raw(it[2]) != truths[j][0]:
                        notes.append("kernel status %d differs from the command's termination" % it[2])
                elif it[1] in ("c", "i"):
                    toks.append("W%s:%s" % (it[1], raw(it[2])))
                else:
                    notes.append("waitpid failed with an unexpected errno")
                last_w = it
            elif it[0] == "H":
                if it[1] == "r":
                    if not reaped:
                        toks.append("X")
                        reaped = True
                    last_hr = it
                    if raw(it[2]) != truths[j][0]:
                        notes.append("kernel status %d differs from the command's termination" % it[2])
                if it[1] in "rnc":
                    toks.append("H" + it[1])
                else:
                    notes.append("waitpid(WNOHANG) failed with an unexpected errno")
            elif it[0] == "Sw":
                toks.append("S")
                if last_w is None or last_w[2] != it[1]:
                    notes.append("setProcessExitStatus called from wait() with a status that no waitpid of wait() left")
            elif it[0] == "Sh":
                toks.append("Z")
                if last_hr is None or last_hr[2] != it[1]:
                    notes.append("setProcessExitStatus called from the handler with a status its waitpid did not return")
        if pending_t1:
            toks.append("T1")
        if not has_w:
            toks.append("T0")
        elif last_w is not None and last_w[1] == "c" and not any(it[0] == "Sw" for it in items[items.index(last_w):]):
            # the synchronisation of the repaired wait() (mutex acquired and released) is not logged:
            # it is placed at the latest point after the ECHILD answer where the handler is outside
            # (a later invocation of the handler, for another child, may be in progress when execute()
            # returns); if there is no such point it is placed at the end (and the model rejects it)
            lw = max(x for x, t in enumerate(toks) if t.startswith("Wc:"))
            inside_h, pos = False, None
            for x, t in enumerate(toks):
                if x > lw and not inside_h:
                    pos = x
                if t == "E":
                    inside_h = True
                elif t == "L":
                    inside_h = False
            if not inside_h or pos is None:
                pos = len(toks) if not inside_h else (pos if pos is not None else len(toks))
            toks.insert(pos, "Y")
        path = ("EINTR" if any(it[0] == "W" and it[1] == "i" for it in items) else
                "ECHILD" if any(it[0] == "W" and it[1] == "c" for it in items) else
                "waiter-reaps" if any(it[0] == "W" and it[1] == "r" for it in items) else "handler-first")
        out[j] = {"tokens": toks, "outcome": J["outcome"], "notes": notes, "path": path, "moved": moved,
                  "raw_events": [" ".join(str(a) for a in it) for it in items]}
    return out


# ---------------------------------------------------------------- the tfel-check layer (TestLauncher.cxx, tfel-check.cxx)
TC_DEFINES = ("TFEL_VERIF_HOOKS", "TFEL_ARCH64", "LINUX64", "UNIX64", "THREAD", "HAVE_FENV", 'VERSION="verif"')
TC_KINDS = {"ok": ("exit 0", "e0"), "e1": ("exit 1", "e1"), "e2": ("exit 2", "e2"), "e3": ("exit 3", "e3"),
            "e127": ("exit 127", "e127"), "e255": ("exit 255", "e255"), "k9": ("kill -KILL $$", "s9"),
            "k15": ("kill -TERM $$", "s15"), "slow0": ("sleep 0.02\nexit 0", "e0"), "slow3": ("sleep 0.02\nexit 3", "e3")}


def compile_tfel_check(ck):
    """objects of tfel-check.cxx and TestLauncher.cxx of the current tree (started first, in the background)"""
    R = vlib.REPO
    inc = [R + "/mfront/include", vlib.BUILD + "/mfront/include", R + "/tfel-check/include"]
    return ck.cxx_many([("tc_main.o", [R + "/tfel-check/src/tfel-check.cxx"]), ("tc_launcher.o", [R + "/tfel-check/src/TestLauncher.cxx"])],
                       flags=["-c"], includes=inc, std="gnu++20", defines=TC_DEFINES, opt="-O0")


COMPARISON = '@TestType Absolute;\n@Precision 1.e-6;\n@Test "ref.txt" "ref.txt" 2;\n'


def check_text(cmds):
    return "".join('@Command "sh %s.sh"%s;\n' % (k, "{shall_fail: true}" if f else "") for k, f in cmds)


def build_tfel_check(ck, built, objs):
    """tfel-check.cxx and TestLauncher.cxx of the current tree, linked with the process/signal managers compiled from
    the tree for the first harness (objects given first: they take precedence over the prebuilt shared libraries)"""
    if getattr(vlib, "BUILD_MATCHES_REPO", False):
        # the prebuilt libraries the executable is linked with must be complete (the build tree is shared and may be
        # in the middle of a rebuild): bring them up to date under the build lock, as C38 does
        ck.ensure_targets("TFELCheck", "TFELMFront")
    else:
        ck.notes.append("VERIF_REPO=%s has no build tree of its own: tfel-check.cxx, TestLauncher.cxx and the process/signal managers "
                        "are compiled from it, the other libraries come from %s" % (vlib.REPO, vlib.BUILD))
    libs = ck.libflags("TFELCheck", "TFELMFront", "MFrontLogStream", "TFELMaterial", "TFELMathParser", "TFELMathCubicSpline",
                       "TFELGlossary", "TFELSystem", "TFELUtilities", "TFELException", "TFELConfig", "TFELUnicodeSupport",
                       "TFELNUMODIS", "TFELMath")
    return ck.cxx("c30tc", [objs["tc_main.o"], objs["tc_launcher.o"]] + [built[n] for n in ("pm.o", "sm.o", "sh.o", "pc.o")],
                  flags=["-rdynamic"], libs=libs + ["-lpthread"], std="gnu++20")


def tfel_check_layer(ck, rng, built, objs):
    """runs the tfel-check of the tree on seeded suites of .check files whose commands have a known termination:
    a command is reported as a success iff it exited with 0 (the message names the exit value / the signal),
    a test succeeds iff all its commands do, tfel-check exits with 0 iff all tests succeed"""
    import re
    binary = build_tfel_check(ck, built, objs)
    # (jobs, tests, --discard-commands-failure): by default (true) the failure of a command is discarded when the test
    # has comparisons and they succeed (docs/web/tfel-check.md); without comparisons it is never ignored
    suites = [(1, 6, None), (4, 14, False), (8, 20, None)] if ck.quick else \
             [(1, 30, None), (2, 40, False), (4, 60, None), (8, 80, False), (16, 80, None)]
    stats = {"commands": 0, "tests": 0, "suites": 0, "kinds": {}}
    reported = set()
    strip = lambda t: re.sub(r"\x1b\[[0-9;]*m", "", t)
    for si, (jobs, ntests, discard) in enumerate(suites):
        discarded = discard is None or discard
        d = ck.path("tc", "suite%d" % si)
        shutil.rmtree(d, ignore_errors=True)
        os.makedirs(d)
        for k, (body, _) in TC_KINDS.items():
            with open(os.path.join(d, k + ".sh"), "w") as f:
                f.write(body + "\n")
        tests, compared = {}, {}
        with open(os.path.join(d, "ref.txt"), "w") as f:
            f.write("1 2\n3 4\n5 6\n")
        for t in range(ntests):
            n = rng.choice([1, 1, 2, 3])
            kinds = [rng.choice(list(TC_KINDS)) if rng.random() < 0.55 else rng.choice(["ok", "slow0"]) for _ in range(n)]
            # `shall_fail: true` on some of the commands that do fail: the failure is then the expected outcome
            # (on a command that succeeds the option changes nothing in this tree: not generated)
            sf = [TC_KINDS[k][1] != "e0" and rng.random() < 0.3 for k in kinds]
            tests["t%d" % t] = list(zip(kinds, sf))
            # a comparison that always passes (a file against itself) on some tests: the failure of a command
            # then fails the test only with --discard-commands-failure=false
            with_cmp = rng.random() < 0.35
            compared["t%d" % t] = with_cmp
            with open(os.path.join(d, "t%d.check" % t), "w") as f:
                f.write(check_text(zip(kinds, sf)) + (COMPARISON if with_cmp else ""))
        import subprocess
        try:
            p = ck.run([binary, "--jobs=%d" % jobs] + ([] if discard is None else ["--discard-commands-failure=%s" % str(discard).lower()]) +
                       ["t%d.check" % t for t in range(ntests)], cwd=d, timeout=240)
        except subprocess.TimeoutExpired:
            key = "corr:tfel-check/src/tfel-check.cxx:hang"
            if key not in reported:
                reported.add(key)
                ck.violation(key, "tfel-check --jobs=%d did not terminate within 240 s on %d tests of one to three short commands" % (jobs, ntests),
                             {"site": "tfel-check/src/tfel-check.cxx", "jobs": jobs, "tests": tests}, False)
            continue
        if p.returncode < 0 or p.returncode > 1:
            key = "corr:tfel-check/src/tfel-check.cxx:crash"
            if key not in reported:
                reported.add(key)
                ck.violation(key, "tfel-check --jobs=%d ended with status %d" % (jobs, p.returncode),
                             {"site": "tfel-check/src/tfel-check.cxx", "jobs": jobs, "tests": tests, "stderr": p.stderr[-1500:]}, False)
            continue
        log = strip(open(os.path.join(d, "tfel-check.log")).read()) if os.path.exists(os.path.join(d, "tfel-check.log")) else ""
        stats["suites"] += 1
        all_ok = True
        for name, cmds in tests.items():
            stats["tests"] += 1
            kinds = [k for k, _ in cmds]
            want_test = all(TC_KINDS[k][1] == "e0" or f for k, f in cmds) or (compared[name] and discarded)
            all_ok = all_ok and want_test
            m = re.search(r"\* end of test '\./%s\.check'\s*\[\s*(SUCCESS|FAILED)\]" % name, log)
            got_test = m.group(1) if m else "missing"
            cl = os.path.join(d, name + ".checklog")
            clog = strip(open(cl).read()) if os.path.exists(cl) else ""
            rep = {"site": "tfel-check/src/TestLauncher.cxx, tfel-check/src/tfel-check.cxx", "jobs": jobs,
                   "discard_commands_failure": "default (true)" if discard is None else discard,
                   "check_file": check_text(cmds) + (COMPARISON if compared[name] else ""),
                   "scripts": {k + ".sh": TC_KINDS[k][0] for k in kinds}, "test_verdict": got_test,
                   "test_log": clog[-1500:], "tfel_check_exit_status": p.returncode}
            for i, (k, shall_fail) in enumerate(cmds, 1):
                stats["commands"] += 1
                stats["kinds"][k + ("+shall_fail" if shall_fail else "")] = stats["kinds"].get(k + ("+shall_fail" if shall_fail else ""), 0) + 1
                truth = TC_KINDS[k][1]
                mm = re.search(r"%s:Exec-%d\s*\[\s*(SUCCESS|FAILED)\]\s*\n Command was : sh %s\.sh\n(?: Message : (.*)\n)?" % (name, i, k), clog)
                got = mm.group(1) if mm else "missing"
                msg = (mm.group(2) or "") if mm else ""
                bad = None
                if got != ("SUCCESS" if (truth == "e0" or shall_fail) else "FAILED"):
                    bad = "verdict %s%s" % (got, " although the failure is declared with shall_fail" if shall_fail else "")
                elif truth[0] == "e" and truth != "e0" and ("exited abnormally with value %s" % truth[1:]) not in msg:
                    bad = "message `%s` does not report the exit value %s" % (msg, truth[1:])
                elif truth[0] == "s" and "signal" not in msg:
                    bad = "message `%s` does not report the signal death" % msg
                if bad:
                    key = "tfel-check/src/TestLauncher.cxx:command-verdict:%s%s" % (
                        "exit0" if truth == "e0" else ("exit-n" if truth[0] == "e" else "signal"), ":shall_fail" if shall_fail else "")
                    if key not in reported:
                        reported.add(key)
                        ck.violation(key, "tfel-check --jobs=%d, test %s, command %d (`%s`, which %s): %s" % (
                            jobs, name, i, TC_KINDS[k][0].replace("\n", "; "),
                            "exits with %s" % truth[1:] if truth[0] == "e" else "is killed by signal %s" % truth[1:], bad), rep, True)
            if got_test != ("SUCCESS" if want_test else "FAILED"):
                key = "tfel-check/src/TestLauncher.cxx:test-verdict:%s" % ("all-commands-succeed" if want_test else "a-command-fails")
                if key not in reported:
                    reported.add(key)
                    ck.violation(key, "tfel-check --jobs=%d: test %s (commands %s) is reported %s" % (jobs, name, kinds, got_test), rep, True)
        if (p.returncode == 0) != all_ok:
            key = "tfel-check/src/tfel-check.cxx:exit-status:%s" % ("all-tests-succeed" if all_ok else "a-test-fails")
            if key not in reported:
                reported.add(key)
                ck.violation(key, "tfel-check --jobs=%d exits with %d although %s" % (
                    jobs, p.returncode, "every test succeeds" if all_ok else "some tests fail"),
                    {"site": "tfel-check/src/tfel-check.cxx", "jobs": jobs, "tests": tests,
                     "scripts": {k + ".sh": v[0] for k, v in TC_KINDS.items()}, "log_tail": log[-2500:], "stderr": p.stderr[-500:]}, True)
    stats["tests_with_a_comparison"] = stats.get("tests_with_a_comparison", 0)
    return stats


def run(ck):
    rng = random.Random(ck.seed)
    src, hook_note = hooked_source(ck)
    ck.log(hook_note)
    R = vlib.REPO
    tc_pool = ThreadPoolExecutor(max_workers=1)
    tc_future = tc_pool.submit(compile_tfel_check, ck)
    objs = [("h.o", ["C30/harness.cxx"]), ("pm.o", [src]), ("sm.o", [R + "/src/System/SignalManager.cxx"]),
            ("sh.o", [R + "/src/System/SignalHandler.cxx"]), ("se.o", [R + "/src/System/SystemError.cxx"]),
            ("sy.o", [R + "/src/System/System.cxx"]), ("pc.o", [R + "/src/System/ProcessManager-c.c"]),
            ("ex.o", [R + "/src/Exception/TFELException.cxx"])]
    built = ck.cxx_many(objs, flags=["-c"], includes=["/repo/_build/include"])
    harness = ck.cxx("c30h", [built[n] for n, _ in objs], libs=["-lpthread", "-ldl"])
    driver = ck.lean_exe("c30driver", "TfelVerif/C30/Driver.lean")
    res = ck.lean(PROPS, PROPS)
    ck.lean_violations(res)
    if ck.tier == "thorough" and res.ok:
        for m, log in ck.leanchecker(PROPS):
            ck.violation("leanchecker:" + m, "leanchecker rejects " + m, {"log": log}, False)

    if ck.quick:
        configs = [("A", 1, 10), ("A", 4, 5), ("A", 16, 3), ("B", 1, 12), ("C", 2, 8), ("C", 8, 4)]
    else:
        configs = [("A", 1, 60), ("A", 2, 40), ("A", 4, 40), ("A", 8, 30), ("A", 16, 20), ("B", 1, 100),
                   ("C", 2, 60), ("C", 4, 40), ("C", 8, 30), ("C", 16, 20)]
    runs = []
    for ci, (mode, nt, per) in enumerate(configs):
        text, truths = gen_plans(rng, nt, per, (0, 300, 3000, 10000) if mode == "C" else (0, 0, 300, 3000))
        runs.append({"name": "%s%d" % (mode, nt), "mode": mode, "threads": nt, "plans": text, "truths": truths, "ci": ci,
                     "hseed": rng.randrange(1, 10**6)})

    def work(r):
        p = ck.run([harness, "run", ck.path("log%d.txt" % r["ci"]), r["mode"], str(r["threads"]), str(r["hseed"])],
                   input=r["plans"], timeout=900)
        lg = ck.path("log%d.txt" % r["ci"])
        return p.returncode, (open(lg).read().splitlines() if os.path.exists(lg) else []), p.stderr[-500:]

    with ThreadPoolExecutor(max_workers=3 if ck.quick else 2) as ex:
        results = list(ex.map(work, runs))

    lines = []
    jobs = {}
    for r, (rc, log, err) in zip(runs, results):
        if rc != 0:
            ck.violation("corr:%s:harness-%s" % (SRC, "hang" if "HANG" in log else "crash"),
                         "the C30 harness %s in configuration %s (rc=%d) %s" % ("hung" if "HANG" in log else "failed", r["name"], rc, err),
                         {"configuration": r["name"], "log_tail": log[-40:], "stderr": err}, False)
            continue
        pr = project(log, r["truths"])
        for j, P in pr.items():
            name = "%s.%d.%d" % (r["name"], j[0], j[1])
            truth, plan = r["truths"][j]
            if P is None:
                ck.violation("corr:%s:job-missing" % SRC, "job %s left no complete history" % name, {"plan": plan}, False)
                continue
            jobs[name] = dict(P, truth=truth, plan=plan, config=r["name"])
            lines.append("%s %s %s" % (name, truth, " ".join(P["tokens"])))
    pm = ck.run([driver], input="\n".join(lines) + "\n", timeout=600)
    for line in pm.stdout.splitlines():
        f = line.split()
        if f and f[0] in jobs:
            jobs[f[0]]["verdict"] = dict(x.split("=", 1) for x in f[1:] if "=" in x)

    reported = set()
    paths, outcomes, distinct = {}, {}, set()
    accepted = wrong = 0
    for name, J in jobs.items():
        vd = J.get("verdict", {})
        exp = expected(J["truth"])
        paths[J["path"]] = paths.get(J["path"], 0) + 1
        outcomes[J["outcome"].split(":")[0]] = outcomes.get(J["outcome"].split(":")[0], 0) + 1
        if J["path"] != "waiter-reaps" or "E" in J["tokens"]:
            distinct.add((J["truth"][0], " ".join(J["tokens"])))
        rep = {"site": SRC, "configuration": J["config"] + " (mode, threads)", "command_termination": J["truth"],
               "plan(thread iter kind n child_sleep_us delay_mode delay_us preloaded_status)": J["plan"],
               "events_logged_by_the_real_code": J["raw_events"], "model_tokens": " ".join(J["tokens"]),
               "execute_outcome_observed": J["outcome"], "execute_outcome_required": exp, "model_verdict": vd,
               "legend": "W kind status: blocking waitpid of wait() (r=pid, c=ECHILD, i=EINTR; status=content of wait()'s variable after the call); "
                         "H: waitpid(WNOHANG) of the handler; Sw/Sh: setProcessExitStatus from wait()/handler; E/L handler enters/leaves; "
                         "tokens: X child exit, T1/T0 running-state test, S/Z set by wait()/handler, Y wait() synchronises with the handler",
               "notes": J["notes"]}
        bad_outcome = J["outcome"] != exp
        if bad_outcome:
            wrong += 1
        fixed_ok = vd.get("fixed") == "accept"
        if fixed_ok and not bad_outcome and not J["notes"] and vd.get("outcome") == J["outcome"]:
            accepted += 1
            continue
        if bad_outcome:
            key = "%s:wait:%s" % (SRC, J["path"])
            what = ("execute() of a command that %s reported '%s' instead of '%s' (%s path: %s)"
                    % ("exited with %s" % J["truth"][1:] if J["truth"][0] == "e" else "was killed by signal %s" % J["truth"][1:],
                       J["outcome"], exp, J["path"], " ".join(J["raw_events"])))
            found = True
        elif not fixed_ok:
            key = "corr:%s:wait:%s" % (SRC, J["path"])
            what = "history of job %s is not a behaviour of the model: %s (outcome still %s)" % (name, vd.get("fixed"), J["outcome"])
            found = False
        else:
            key = "corr:%s:outcome-or-status" % SRC
            what = "job %s: accepted history but model outcome %s / notes %s" % (name, vd.get("outcome"), J["notes"])
            found = False
        if key not in reported:
            reported.add(key)
            ck.violation(key, what, rep, found)
    # a wrong outcome is the stronger report: drop the weaker ones for the same path
    ck.violations = [v for v in ck.violations
                     if not (v[0].startswith("corr:") and v[0][5:] in reported)]

    tc_objs = tc_future.result()
    tc_pool.shutdown()
    tc = tfel_check_layer(ck, random.Random(ck.seed + 7919), built, tc_objs)
    ck.assumptions += [
        "the tfel-check layer (TestLauncher::execute, TFELCheck::execute) is not modelled: tfel-check.cxx and TestLauncher.cxx of the current tree are compiled, linked with the process and signal managers of the tree (in front of the prebuilt libTFELCheck / libTFELSystem) and run with --jobs 1..8 on seeded .check files whose commands exit with 0 / n / die by a signal; command verdicts and messages, test verdicts and the exit status of tfel-check are compared with what the terminations require (commands are `sh <file>.sh`: tfel-check splits commands on blanks without honouring quotes)",
        "M: the transition system of Model.lean is tied to ProcessManager.cxx by trace validation: the kernel's answers to every waitpid are logged by an interposed waitpid in the harness, setProcessExitStatus and the handler's critical section by hooks (guard TFEL_VERIF_HOOKS); every job's history must be accepted by the model and execute()'s outcome must be the model's (differential testing over the schedules run, not proof)",
        "kernel facts modelled, not verified: a zombie is reaped by exactly one successful waitpid; later waitpids fail with ECHILD; a failing waitpid leaves status unwritten; an unwritten local holds an arbitrary value; nobody but wait() and sigChildHandler reaps the child",
        "setProcessExitStatus and the test of isRunning are modelled as atomic steps (the C++ data race on the record between wait() and the handler is not modelled); the handler is serialised by processesAccess",
        "not covered: liveness; async-signal-unsafety of the handler (std::mutex, allocation in SignalManager::treatAction) - the harness keeps SIGCHLD away from threads that may hold these locks; sendSignal/killProcess/terminateHandler/~ProcessManager paths; exec failure",
        "inferred events: child exit is placed just before the first successful reap, the running-state test at the start of wait(), the synchronisation of the repaired wait() just before execute() returns; a successful blocking reap logged after an ECHILD answer of the handler is moved before it",
        hook_note,
    ]
    names = list(jobs)[:3]
    return ck.finish({
        "evaluations": len(jobs),
        "distinct_nontrivial": len(distinct),
        "rule": "evaluations = commands executed through the real ProcessManager::execute (seeded: exit 0 / exit n / signal, child lifetime, delay between the running-state test and waitpid incl. 'until reaped by the handler', pre-loaded status) in modes A (handler in another thread, 1..16 threads), B (single thread), C (SIGCHLD only inside waitpid: EINTR); distinct_nontrivial = distinct (termination class, event sequence) in which the handler ran during the job or the waiter did not reap itself",
        "samples": ["%s truth=%s: %s -> %s, %s" % (n, jobs[n]["truth"], " ".join(jobs[n]["tokens"]), jobs[n]["outcome"], jobs[n].get("verdict")) for n in names],
        "traces_validated_against_impl": len(jobs), "traces_accepted": accepted, "wrong_outcomes": wrong,
        "paths": paths, "outcomes": outcomes, "configurations": [r["name"] for r in runs],
        "reordered_late_reap_lines": sum(1 for J in jobs.values() if J["moved"]),
        "tfel_check_suites": tc["suites"], "tfel_check_tests": tc["tests"], "tfel_check_commands": tc["commands"],
        "tfel_check_command_kinds": tc["kinds"],
        "exhaustive": False,
    })
