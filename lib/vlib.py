"""Shared machinery for /verif checks (see DESIGN.md §2.4).

A check module `checks/Cxx.py` defines `run(ck)` where `ck` is a `Check`.
It builds its tie from /repo's working tree, (re)generates Lean, asks `ck.lean`
to re-check the theorems and audit their axioms, runs correspondences, reports
violations through `ck.violation`, and ends with `ck.finish(coverage)`.
"""
import fcntl
import hashlib
import json
import os
import re
import shutil
import subprocess
import sys
import time

VERIF = os.path.dirname(os.path.dirname(os.path.abspath(__file__)))
REPO = os.environ.get("VERIF_REPO", "/repo")
# build tree: generated headers + prebuilt libraries/binaries. A scratch worktree (VERIF_REPO) has none of
# its own unless VERIF_BUILD names one; header-only / source-compiled harnesses then borrow /repo/_build
# for the generated configuration headers only.
BUILD = os.environ.get("VERIF_BUILD") or (os.path.join(REPO, "_build") if os.path.exists(os.path.join(REPO, "_build", "build.ninja")) else "/repo/_build")
BUILD_MATCHES_REPO = os.path.realpath(BUILD).startswith(os.path.realpath(REPO) + os.sep) or bool(os.environ.get("VERIF_BUILD"))
LEAN = os.path.join(VERIF, "lean")
ALLOWED_AXIOMS = {"propext", "Classical.choice", "Quot.sound"}
FORBIDDEN = re.compile(
    r"\bsorry\b|\badmit\b|^\s*axiom\s|native_decide|bv_decide|implemented_by|\bunsafe\s|maxHeartbeats\s+0\b")
NCPU = os.cpu_count() or 4

BASE_TRUSTED = [
    "Lean 4.33 kernel and Mathlib v4.33 as compiled in the image",
    "axioms: propext, Classical.choice, Quot.sound only (audited by #print axioms on every property theorem, every run)",
    "no sorry/admit/native_decide/bv_decide/own axioms (grep audit on every run)",
]


class BuildError(Exception):
    def __init__(self, what, log):
        super().__init__(what)
        self.what = what
        self.log = log


def sh(cmd, cwd=None, input=None, timeout=None, env=None, check=False):
    e = dict(os.environ)
    if env:
        e.update(env)
    p = subprocess.run(cmd, cwd=cwd, input=input, timeout=timeout, env=e,
                       stdout=subprocess.PIPE, stderr=subprocess.PIPE, text=True,
                       shell=isinstance(cmd, str))
    if check and p.returncode != 0:
        raise BuildError("command failed: %s" % (cmd if isinstance(cmd, str) else " ".join(cmd)),
                         p.stdout[-4000:] + p.stderr[-8000:])
    return p


def strip_lean_comments(text):
    """remove /- -/ (nested) and -- comments, keep line structure"""
    out = []
    i = 0
    depth = 0
    n = len(text)
    in_str = False
    while i < n:
        ch = text[i]
        if depth == 0 and not in_str and text.startswith("--", i):
            while i < n and text[i] != "\n":
                i += 1
            continue
        if not in_str and text.startswith("/-", i):
            depth += 1
            i += 2
            continue
        if depth > 0 and text.startswith("-/", i):
            depth -= 1
            i += 2
            continue
        if depth > 0:
            if ch == "\n":
                out.append(ch)
            i += 1
            continue
        if ch == '"':
            in_str = not in_str
        elif ch == "\\" and in_str:
            out.append(ch)
            i += 1
            if i < n:
                out.append(text[i])
            i += 1
            continue
        out.append(ch)
        i += 1
    return "".join(out)


def lean_theorems(path):
    """fully qualified names of the theorems declared in a Lean file"""
    txt = strip_lean_comments(open(path).read())
    ns = []
    names = []
    for line in txt.splitlines():
        m = re.match(r"\s*namespace\s+(\S+)", line)
        if m:
            ns.append(m.group(1))
            continue
        m = re.match(r"\s*end\s+(\S+)\s*$", line)
        if m and ns and ns[-1] == m.group(1):
            ns.pop()
            continue
        m = re.match(r"\s*(?:@\[[^\]]*\]\s*)?(?:private\s+|protected\s+)?theorem\s+(\S+)", line)
        if m:
            names.append(".".join(ns + [m.group(1)]))
    return names


def theorem_at(path, lineno):
    """name of the theorem enclosing line `lineno` of a Lean file"""
    last = None
    try:
        lines = open(path).read().split("\n")
        # an error reported on a `set_option … in` / attribute line belongs to the declaration that follows
        k = lineno
        while k <= len(lines) and k < lineno + 4 and re.match(r"\s*(set_option\b.*\bin\s*$|@\[[^\]]*\]\s*$)", lines[k - 1]):
            k += 1
        lineno = k
        for i, line in enumerate(lines, 1):
            if i > lineno:
                break
            m = re.match(r"\s*(?:@\[[^\]]*\]\s*)?(?:private\s+|protected\s+)?(?:theorem|lemma|def|example|instance)\s*(\S*)", line)
            if m:
                last = m.group(1) or "example@%d" % i
    except OSError:
        pass
    return last


class LeanResult:
    def __init__(self):
        self.ok = True
        self.failed = []       # list of dict(module, file, line, theorem, msg)
        self.theorems = []     # list of (name, axioms)
        self.bad_axioms = []   # list of (name, axioms)
        self.forbidden = []    # list of (file, line, text)
        self.log = ""
        self.wall = 0.0

    @property
    def obligations(self):
        return len(self.theorems) + len({f["theorem"] for f in self.failed if f.get("is_prop")}) + getattr(self, "unaudited", 0)

    @property
    def discharged(self):
        return len([t for t in self.theorems if set(t[1]) <= ALLOWED_AXIOMS])


class Check:
    def __init__(self, pid, tier, seed):
        self.pid = pid
        self.tier = tier
        self.seed = seed
        self.t0 = time.time()
        self.work = os.path.join(VERIF, "work", pid)
        shutil.rmtree(self.work, ignore_errors=True)
        os.makedirs(self.work, exist_ok=True)
        os.makedirs(os.path.join(VERIF, "evidence"), exist_ok=True)
        os.makedirs(os.path.join(VERIF, "replays"), exist_ok=True)
        self.violations = []     # (key, what, replay_path, found)
        self.known = []
        self.assumptions = []
        self.notes = []
        self.findings = self._load_findings()
        self.lean_results = []
        self.quick = tier == "quick"

    # ------------------------------------------------------------ utilities
    def log(self, *a):
        print("[%s %6.1fs]" % (self.pid, time.time() - self.t0), *a, flush=True)

    def path(self, *a):
        return os.path.join(self.work, *a)

    def write(self, name, text):
        p = self.path(name)
        os.makedirs(os.path.dirname(p), exist_ok=True)
        with open(p, "w") as f:
            f.write(text)
        return p

    def _load_findings(self):
        res = []
        p = os.path.join(VERIF, "known_findings.txt")
        if os.path.exists(p):
            for line in open(p):
                line = line.strip()
                m = re.match(r"finding:\s+property=(\S+)\s+key=(\S+)\s+(.*)", line)
                if m and m.group(1) == self.pid:
                    res.append((m.group(2), m.group(3)))
        return res

    # ------------------------------------------------------------ C++ side
    def cxx(self, name, sources, flags=(), libs=(), sanitize=False, opt="-O1", std="c++20",
            includes=(), defines=("TFEL_VERIF_HOOKS",), compiler="g++", timeout=1800):
        """compile `sources` (paths; relative ones are under /verif/harness) into work/<name>"""
        out = self.path(name)
        srcs = [s if os.path.isabs(s) else os.path.join(VERIF, "harness", s) for s in sources]
        cmd = [compiler, "-std=" + std, opt, "-g0", "-ffp-contract=off", "-fno-fast-math",
               "-I" + os.path.join(VERIF, "harness"), "-I" + os.path.join(VERIF, "harness", "symtrace"),
               "-I" + os.path.join(REPO, "include"), "-I" + os.path.join(BUILD, "include")]
        cmd += ["-I" + i for i in includes]
        cmd += ["-D" + d for d in defines]
        if sanitize:
            cmd += ["-fsanitize=address,undefined", "-fno-sanitize-recover=all", "-g"]
        cmd += list(flags) + srcs + ["-o", out] + list(libs)
        t = time.time()
        p = sh(cmd, timeout=timeout)
        if p.returncode != 0:
            raise BuildError("harness %s does not compile against the current tree" % name,
                             (p.stdout + p.stderr)[-6000:])
        self.log("compiled %s in %.1fs" % (name, time.time() - t))
        return out

    def cxx_many(self, jobs, **kw):
        """compile several harnesses in parallel; jobs: list of (name, sources[, flags])"""
        from concurrent.futures import ThreadPoolExecutor
        res = {}
        with ThreadPoolExecutor(max_workers=NCPU) as ex:
            futs = {}
            for j in jobs:
                name, sources = j[0], j[1]
                k = dict(kw)
                if len(j) > 2:
                    k["flags"] = j[2]
                futs[name] = ex.submit(self.cxx, name, sources, **k)
            for name, f in futs.items():
                res[name] = f.result()
        return res

    def libflags(self, *libs):
        """link flags for prebuilt TFEL shared libraries of /repo/_build (rebuilt by ensure_targets)"""
        dirs = {}
        for root, _, files in os.walk(BUILD):
            for f in files:
                m = re.match(r"lib(\w+)\.so$", f)
                if m and m.group(1) in libs:
                    dirs[m.group(1)] = root
        out = []
        for l in libs:
            if l not in dirs:
                raise BuildError("library %s not found under %s" % (l, BUILD), "")
            out += ["-L" + dirs[l], "-Wl,-rpath," + dirs[l], "-l" + l]
        return out

    def ensure_targets(self, *targets, timeout=7200):
        """bring ninja targets of the build tree up to date with the working tree (no-op when unchanged)"""
        if not BUILD_MATCHES_REPO:
            raise BuildError("VERIF_REPO=%s has no build tree of its own (set VERIF_BUILD): refusing to use the "
                             "binaries of %s, which were built from another tree" % (REPO, BUILD), "")
        # one lock per build tree (the default tree keeps the historical name)
        lname = ".ninja.lock" if BUILD == "/repo/_build" else ".ninja-%s.lock" % hashlib.md5(BUILD.encode()).hexdigest()[:8]
        lock = open(os.path.join(VERIF, "work", lname), "w")
        fcntl.flock(lock, fcntl.LOCK_EX)
        try:
            t = time.time()
            p = sh(["cmake", "--build", BUILD, "-j", str(NCPU), "--target"] + list(targets), timeout=timeout)
            if p.returncode != 0:
                raise BuildError("cmake --build --target %s failed on the current tree" % " ".join(targets),
                                 (p.stdout + p.stderr)[-6000:])
            self.log("targets %s up to date (%.1fs)" % (",".join(targets), time.time() - t))
        finally:
            fcntl.flock(lock, fcntl.LOCK_UN)
            lock.close()

    def run(self, cmd, input=None, timeout=600, env=None, cwd=None):
        return sh(cmd, input=input, timeout=timeout, env=env, cwd=cwd or self.work)

    # ------------------------------------------------------------ Lean side
    def write_gen(self, relpath, text):
        """write a generated Lean file under lean/ only when its content changed"""
        p = os.path.join(LEAN, relpath)
        os.makedirs(os.path.dirname(p), exist_ok=True)
        old = open(p).read() if os.path.exists(p) else None
        if old != text:
            with open(p, "w") as f:
                f.write(text)
        return p

    def emit(self, dag_paths, namespace, relpath):
        """T1: symtrace dumps -> generated Lean file"""
        tmp = self.path("gen_%s.lean" % hashlib.md5(relpath.encode()).hexdigest()[:8])
        p = sh([sys.executable, os.path.join(VERIF, "harness", "symtrace", "emit.py"),
                "--namespace", namespace, "--out", tmp] + list(dag_paths))
        if p.returncode != 0:
            raise BuildError("emit.py failed", p.stdout + p.stderr)
        return self.write_gen(relpath, open(tmp).read())

    def lean(self, modules, props, extra_sources=()):
        """lake build `modules`, audit the theorems of the `props` modules.
        modules/props: module names like 'TfelVerif.C01.Props'. Returns LeanResult."""
        res = LeanResult()
        t = time.time()
        lock = open(os.path.join(VERIF, "work", ".lake.lock"), "w")
        fcntl.flock(lock, fcntl.LOCK_SH)  # shared: builds of different property modules may overlap; `flock <file> lake build` (exclusive) is used when Common changes
        try:
            p = sh(["lake", "build"] + list(modules), cwd=LEAN, timeout=7200)
        finally:
            fcntl.flock(lock, fcntl.LOCK_UN)
            lock.close()
        res.log = p.stdout + p.stderr
        propfiles = {os.path.join(LEAN, m.replace(".", "/") + ".lean"): m for m in props}
        if p.returncode != 0:
            res.ok = False
            seen = set()
            for m in re.finditer(r"error: (\S+?\.lean):(\d+):(\d+): (.*)", res.log):
                f = m.group(1)
                if not os.path.isabs(f):
                    f = os.path.join(LEAN, f)
                thm = theorem_at(f, int(m.group(2)))
                key = (f, thm)
                if key in seen:
                    continue
                seen.add(key)
                res.failed.append({"file": os.path.relpath(f, VERIF), "line": int(m.group(2)),
                                   "theorem": thm, "msg": m.group(4)[:300],
                                   "is_prop": f in propfiles})
            if not res.failed:
                res.failed.append({"file": "?", "line": 0, "theorem": None,
                                   "msg": res.log[-600:], "is_prop": True})
        # forbidden constructs (outside comments) in every hand-written or generated source used
        files = set(propfiles)
        for m in modules:
            files.add(os.path.join(LEAN, m.replace(".", "/") + ".lean"))
        files |= {os.path.join(LEAN, s) for s in extra_sources}
        closure = set()
        todo = list(files)
        while todo:
            f = todo.pop()
            if f in closure or not os.path.exists(f):
                continue
            closure.add(f)
            for im in re.finditer(r"^import\s+(TfelVerif\.\S+)", open(f).read(), re.M):
                todo.append(os.path.join(LEAN, im.group(1).replace(".", "/") + ".lean"))
        for f in sorted(closure):
            for i, line in enumerate(strip_lean_comments(open(f).read()).splitlines(), 1):
                if FORBIDDEN.search(line):
                    res.forbidden.append((os.path.relpath(f, VERIF), i, line.strip()[:120]))
        if res.forbidden:
            res.ok = False
        # axiom audit of every property theorem that built
        failed_thms = {f["theorem"] for f in res.failed}
        names = []
        for f, m in propfiles.items():
            if os.path.exists(f):
                names += [(m, n) for n in lean_theorems(f)]
        # only modules whose olean exists can be audited; in a module that failed, Lean still elaborated
        # every other theorem, so only the theorems carrying an error are broken obligations
        auditable = []
        res.unaudited = 0
        for m in props:
            mfile = os.path.join(LEAN, m.replace(".", "/") + ".lean")
            olean = os.path.join(LEAN, ".lake/build/lib/lean", m.replace(".", "/") + ".olean")
            mnames = [n for (mm, n) in names if mm == m]
            errs_here = [f for f in res.failed if os.path.join(VERIF, f["file"]) == mfile]
            # the olean must be newer than every TfelVerif source it (transitively) imports: after a failed
            # build of an import (e.g. a regenerated Gen) a stale olean of the dependent module may survive
            deps, todo2 = set(), [mfile]
            while todo2:
                f2 = todo2.pop()
                if f2 in deps or not os.path.exists(f2):
                    continue
                deps.add(f2)
                for im in re.finditer(r"^import\s+(TfelVerif\.\S+)", open(f2).read(), re.M):
                    todo2.append(os.path.join(LEAN, im.group(1).replace(".", "/") + ".lean"))
            # lake decides freshness by content hash: when it returned 0 every requested module is up to date.
            # When it failed, a module is trusted only if neither it nor one of its imports is listed as failed
            # (a stale olean of a dependent module may survive the failed build of an import).
            built = os.path.exists(olean) and not errs_here
            if built and p.returncode != 0:
                failed_mods = set(re.findall(r"^- (TfelVerif\.\S+)", res.log, re.M))
                depmods = {os.path.relpath(f2, LEAN)[:-5].replace("/", ".") for f2 in deps}
                if (failed_mods & depmods) or not failed_mods:
                    built = False
            if built:
                auditable += [(m, n) for n in mnames]
            elif errs_here:
                res.unaudited += len(mnames) - len({f["theorem"] for f in errs_here})
            else:
                res.failed.append({"file": os.path.relpath(mfile, VERIF), "line": 0, "theorem": m,
                                   "msg": "module did not build (an imported module failed); %d theorems not re-checked" % len(mnames),
                                   "is_prop": True})
        if auditable:
            mods = sorted({m for m, _ in auditable})
            src = "".join("import %s\n" % m for m in mods)
            src += "".join("#print axioms %s\n" % n for _, n in auditable)
            ap = self.write("Audit_%s.lean" % hashlib.md5(src.encode()).hexdigest()[:8], src)
            q = sh(["lake", "env", "lean", ap], cwd=LEAN, timeout=3600)
            out = q.stdout + q.stderr
            for m in re.finditer(r"'([^']+)' (does not depend on any axioms|depends on axioms: \[([^\]]*)\])", out):
                ax = [a.strip() for a in (m.group(3) or "").replace("\n", " ").split(",") if a.strip()]
                res.theorems.append((m.group(1), ax))
                if not set(ax) <= ALLOWED_AXIOMS:
                    res.bad_axioms.append((m.group(1), ax))
            got = {t[0] for t in res.theorems}
            for _, n in auditable:
                if n not in got:
                    res.failed.append({"file": "audit", "line": 0, "theorem": n.split(".")[-1],
                                       "msg": "#print axioms produced no answer: " + out[-300:], "is_prop": True})
            if res.bad_axioms or len(got) != len(auditable):
                res.ok = False
        if res.failed:
            res.ok = False
        res.wall = time.time() - t
        self.lean_results.append(res)
        self.log("lean: %d theorems audited, %d failed obligations, ok=%s (%.1fs)" %
                 (len(res.theorems), len(res.failed), res.ok, res.wall))
        return res

    def leanchecker(self, modules):
        """thorough tier: independent re-check of compiled .olean files"""
        bad = []
        for m in modules:
            p = sh(["lake", "env", "leanchecker", m], cwd=LEAN, timeout=3600)
            if p.returncode != 0:
                bad.append((m, (p.stdout + p.stderr)[-400:]))
        return bad

    def lean_run(self, relfile, input=None, timeout=1200):
        """run a core-only Lean driver through the interpreter"""
        return sh(["lake", "env", "lean", "--run", os.path.join(LEAN, relfile)], cwd=LEAN, input=input, timeout=timeout)

    def lean_exe(self, name, relfile):
        """compile a core-only Lean file (and its TfelVerif imports, core-only) to a native driver"""
        lock = open(os.path.join(VERIF, "work", ".lake.lock"), "w")
        fcntl.flock(lock, fcntl.LOCK_SH)  # shared: builds of different property modules may overlap; `flock <file> lake build` (exclusive) is used when Common changes
        try:
            p = sh(["lake", "build", name], cwd=LEAN, timeout=3600)
        finally:
            fcntl.flock(lock, fcntl.LOCK_UN)
            lock.close()
        if p.returncode != 0:
            raise BuildError("lean driver %s does not build" % name, (p.stdout + p.stderr)[-4000:])
        return os.path.join(LEAN, ".lake/build/bin", name)

    # ------------------------------------------------------------ verdicts
    def violation(self, key, what, replay, found):
        """record a violation. key: stable identifier (call site + input class) matched against
        known_findings.txt; replay: JSON-able dict; found: a concrete failing input is in the replay."""
        for (k, txt) in self.findings:
            if k == key:
                if key not in [x[0] for x in self.known]:
                    self.known.append((key, txt))
                return
        h = hashlib.sha1((key + json.dumps(replay, sort_keys=True, default=str)).encode()).hexdigest()[:10]
        rp = os.path.join(VERIF, "replays", "%s-%s.json" % (self.pid, h))
        replay = dict(replay)
        replay.update({"property": self.pid, "key": key, "what": what, "seed": self.seed,
                       "failing_input_found": bool(found)})
        with open(rp, "w") as f:
            json.dump(replay, f, indent=1, default=str)
        self.violations.append((key, what, rp, found))

    def lean_violations(self, res, search=None):
        """turn a failed LeanResult into violations. `search(failure) -> dict|None` looks for a
        concrete failing input for the broken obligation."""
        if res.ok:
            return
        for (f, i, line) in res.forbidden:
            self.violation("audit:" + f, "forbidden construct in proof sources: %s:%d: %s" % (f, i, line),
                           {"file": f, "line": i, "text": line}, False)
        for (n, ax) in res.bad_axioms:
            self.violation("axioms:" + n, "theorem %s depends on non-whitelisted axioms %s" % (n, ax),
                           {"theorem": n, "axioms": ax}, False)
        for fl in res.failed:
            wit = None
            if search is not None:
                try:
                    wit = search(fl)
                except Exception as e:  # the search is support, never a verdict
                    self.log("search raised", repr(e))
            rep = {"broken_obligation": fl, "lake_log_tail": res.log[-1500:]}
            if wit:
                rep["failing_input"] = wit
            self.violation("thm:%s" % fl.get("theorem"),
                           "theorem %s no longer checks (%s)" % (fl.get("theorem"), fl.get("msg", "")[:120]),
                           rep, bool(wit))

    def tie_broken(self, e):
        self.violation("tie:" + e.what[:60], e.what, {"log": e.log[-3000:]}, False)

    def finish(self, coverage, level="proof"):
        wall = time.time() - self.t0
        obligations = sum(r.obligations for r in self.lean_results)
        discharged = sum(r.discharged for r in self.lean_results)
        cov = dict(coverage)
        if level == "proof":
            cov.setdefault("obligations", obligations)
            cov.setdefault("discharged", discharged)
            cov.setdefault("checker_cmd", "lake build <Props modules> && lake env lean <Audit.lean: #print axioms on every property theorem> (bin/check %s --tier %s)" % (self.pid, self.tier))
            cov.setdefault("trusted_base", BASE_TRUSTED + self.assumptions)
            cov.setdefault("theorems", [t[0] for r in self.lean_results for t in r.theorems])
        cov["known_findings_reported"] = [k for k, _ in self.known]
        if self.notes:
            cov["notes"] = self.notes
        ev = {"property_id": self.pid, "tier": self.tier, "seed": self.seed, "level": level,
              "coverage": cov, "assumptions": self.assumptions, "wall_s": round(wall, 2),
              "violations": len(self.violations)}
        # evidence/ only ever describes runs against /repo itself; a run against a scratch tree (VERIF_REPO) writes elsewhere
        evdir = os.path.join(VERIF, "evidence") if os.path.realpath(REPO) == "/repo" else os.path.join(VERIF, "work", "evidence-scratch")
        os.makedirs(evdir, exist_ok=True)
        with open(os.path.join(evdir, self.pid + ".json"), "w") as f:
            json.dump(ev, f, indent=1, default=str)
        for (k, txt) in self.known:
            print("KNOWN-FINDING: property=%s %s" % (self.pid, txt))
        for (key, what, rp, found) in self.violations:
            print("# %s" % what)
            print("VIOLATION property=%s replay=%s%s" % (self.pid, rp, "" if found else " no-failing-input-found"))
        if not self.violations:
            print("OK property=%s tier=%s seed=%d obligations=%d discharged=%d wall=%.1fs" %
                  (self.pid, self.tier, self.seed, cov.get("obligations", 0), cov.get("discharged", 0), wall))
        shutil.rmtree(self.work, ignore_errors=True)
        return 1 if self.violations else 0
