"""Exact 3x3 matrices over Q(sqrt2) (emit.Q2) — reference operations for the failing-input search.
Support code only: nothing here is part of a proof."""
from fractions import Fraction
from emit import Q2

ZERO = Q2(0)
ONE = Q2(1)
SQ2 = Q2(0, 1)


def q(x):
    return x if isinstance(x, Q2) else Q2(Fraction(x))


class M3:
    def __init__(self, rows):
        self.a = [[q(x) for x in r] for r in rows]

    @staticmethod
    def sym(a00, a11, a22, a01=0, a02=0, a12=0):
        return M3([[a00, a01, a02], [a01, a11, a12], [a02, a12, a22]])

    @staticmethod
    def diag(a, b, c):
        return M3([[a, 0, 0], [0, b, 0], [0, 0, c]])

    @staticmethod
    def one():
        return M3.diag(1, 1, 1)

    @staticmethod
    def outer(v, w):
        return M3([[q(v[i]) * q(w[j]) for j in range(3)] for i in range(3)])

    def __mul__(s, o):
        if isinstance(o, M3):
            return M3([[s.a[i][0] * o.a[0][j] + s.a[i][1] * o.a[1][j] + s.a[i][2] * o.a[2][j]
                        for j in range(3)] for i in range(3)])
        return M3([[x * q(o) for x in r] for r in s.a])

    def __add__(s, o): return M3([[s.a[i][j] + o.a[i][j] for j in range(3)] for i in range(3)])
    def __sub__(s, o): return M3([[s.a[i][j] - o.a[i][j] for j in range(3)] for i in range(3)])
    def T(s): return M3([[s.a[j][i] for j in range(3)] for i in range(3)])
    def trace(s): return s.a[0][0] + s.a[1][1] + s.a[2][2]

    def det(s):
        a = s.a
        return (a[0][0] * (a[1][1] * a[2][2] - a[1][2] * a[2][1])
                - a[0][1] * (a[1][0] * a[2][2] - a[1][2] * a[2][0])
                + a[0][2] * (a[1][0] * a[2][1] - a[1][1] * a[2][0]))

    def inv(s):
        a = s.a
        d = s.det()
        cof = [[None] * 3 for _ in range(3)]
        for i in range(3):
            for j in range(3):
                r = [k for k in range(3) if k != i]
                c = [k for k in range(3) if k != j]
                m = a[r[0]][c[0]] * a[r[1]][c[1]] - a[r[0]][c[1]] * a[r[1]][c[0]]
                cof[j][i] = (m if (i + j) % 2 == 0 else -m) / d
        return M3(cof)

    def frob(s, o):
        r = ZERO
        for i in range(3):
            for j in range(3):
                r = r + s.a[i][j] * o.a[i][j]
        return r

    def dev(s):
        return s - M3.one() * (s.trace() / q(3))

    def mandel(s, n):
        a = s.a
        r = [a[0][0], a[1][1], a[2][2]]
        if n >= 2:
            r.append(SQ2 * a[0][1])
        if n == 3:
            r += [SQ2 * a[0][2], SQ2 * a[1][2]]
        return r

    def tens(s, n):
        a = s.a
        r = [a[0][0], a[1][1], a[2][2]]
        if n >= 2:
            r += [a[0][1], a[1][0]]
        if n == 3:
            r += [a[0][2], a[2][0], a[1][2], a[2][1]]
        return r


def mandel_inputs(prefix, n, vals):
    """env entries for a stensor input `prefix0..` whose matrix entries are vals=(a00,a11,a22,a01,a02,a12)"""
    a = [q(v) for v in vals]
    env = {prefix + "0": a[0], prefix + "1": a[1], prefix + "2": a[2]}
    if n >= 2:
        env[prefix + "3"] = SQ2 * a[3]
    if n == 3:
        env[prefix + "4"] = SQ2 * a[4]
        env[prefix + "5"] = SQ2 * a[5]
    return env


def sym_of(n, vals):
    a = list(vals) + [0] * 6
    if n == 1:
        return M3.sym(a[0], a[1], a[2])
    if n == 2:
        return M3.sym(a[0], a[1], a[2], a[3])
    return M3.sym(*a[:6])
