"""T1 support: run a tracer, emit Lean, and search for a failing input.

`search_units(ck, units, specs, rng, tracer)`:
  units : parsed emit.Unit objects (the DAGs just traced from the current tree)
  specs : {unit name: fn(rng) -> (env, expected)} where env maps input names to emit.Q2 and
          expected is the list of Q2 outputs in `_all` order (None entries are skipped)
Returns a list of concrete counterexamples (unit, inputs, code value, expected value, and the
double-precision result of the real code at that input obtained by re-running the tracer with the
shadow values overridden).
"""
import os
import random
from fractions import Fraction

import emit
from emit import Q2


def run_tracer(ck, binary, out="trace.dag", shadow=None):
    env = {}
    if shadow:
        env["VERIF_SHADOW"] = shadow
    p = ck.run([binary], env=env, timeout=600)
    if p.returncode != 0:
        import vlib
        raise vlib.BuildError("tracer %s failed on the current tree (value dependent branch on a symbol, "
                              "contract violation or crash)" % os.path.basename(binary), (p.stdout[-800:] + p.stderr[-3000:]))
    path = ck.write(out, p.stdout)
    return path, emit.parse(p.stdout)


def rnd_rat(rng, nonzero=False):
    while True:
        v = Fraction(rng.randint(-6, 6), rng.choice([1, 1, 2, 3]))
        if v != 0 or not nonzero:
            return v


def search_units(ck, units, specs, rng, tracer_bin=None, trials=6, only=None):
    found = []
    stats = {"units_evaluated": 0, "points": 0, "skipped_division_by_zero": 0}
    for u in units:
        if u.name not in specs or (only and u.name not in only):
            continue
        stats["units_evaluated"] += 1
        for _ in range(trials):
            try:
                env, expected = specs[u.name](rng)
                val = emit.evaluate(u, env)
            except ZeroDivisionError:
                stats["skipped_division_by_zero"] += 1
                continue
            except emit.NotExact:
                break
            stats["points"] += 1
            bad = None
            for (oname, node), exp in zip(u.outs, expected):
                if exp is None:
                    continue
                if not (val[node] == exp):
                    bad = (oname, val[node], exp)
                    break
            if bad:
                rep = {"unit": u.name, "output": bad[0],
                       "inputs_exact": {k: repr(v) for k, v in env.items()},
                       "code_value_exact": repr(bad[1]), "spec_value_exact": repr(bad[2]),
                       "code_value": float(bad[1]), "spec_value": float(bad[2])}
                if tracer_bin:
                    # replay on the real code in double precision: same template instantiation,
                    # shadow values = result of the double computation at this input
                    sh = "".join("%s %s %.17g\n" % (u.name, k, float(v)) for k, v in env.items())
                    shp = ck.write("shadow_%s.txt" % u.name, sh)
                    try:
                        p = ck.run([tracer_bin], env={"VERIF_SHADOW": shp}, timeout=600)
                        import re
                        m = re.search(r"unit %s\n(.*?)end %s\n" % (re.escape(u.name), re.escape(u.name)), p.stdout, re.S)
                        if m:
                            sh_nodes = {}
                            outs = {}
                            for line in m.group(1).splitlines():
                                f = line.split()
                                if f[0] == "n":
                                    sh_nodes[int(f[1])] = float(line.split(";")[1])
                                elif f[0] == "out":
                                    outs[f[1]] = int(f[2])
                            rep["real_code_double_result"] = sh_nodes.get(outs.get(bad[0]))
                    except Exception as e:  # support only
                        rep["replay_error"] = repr(e)
                found.append(rep)
                break
    return found, stats
